import ProcSim.Spec.Sim
/-!
# Shared foundation for the simulator proofs (C01–C08)

1. `AMap` / `Util` / `Queues` algebra.
2. Exact characterisations of every step of a cycle in terms of `Util.get`.
3. The core invariant `CoreInv` (and its weaker part `BaseInv`), proved for `initState` and preserved by `runCycle`.
4. Lifting principles from `runCycle` to diagrams of `simulate` (`simulate_induction`, `simulate_adjacent`).
5. Memory-port accounting (`memNew`, `fillCycle_memNew_le_one`, `Diagram_memNew_le_one`) used by C05.
6. Further per-unit preservation facts (`moveFlights_get_of_not_involved`, `issueLoop_get_prefix`, …).

Core Lean only (no Mathlib import).
-/
namespace ProcSim

/- `AMap K V` is a plain `def` for `List (K × V)`; the proofs below constantly move between the two views, so the
definition is made transparent to unification *locally* (downstream proof files may want the same line). -/
attribute [local implicit_reducible] AMap

/-! ## 1. `AMap` algebra -/

namespace AMap
variable {K V : Type}

/-- the entries of the map as a list (`AMap` is not reducible, so `∈` needs this view) -/
def toList (m : AMap K V) : List (K × V) := m

@[simp] theorem toList_nil : toList ([] : List (K × V)) = [] := rfl

@[simp] theorem toList_cons (p : K × V) (m : List (K × V)) : toList (p :: m : List (K × V)) = p :: toList m := rfl

@[simp] theorem keys_nil : keys ([] : List (K × V)) = [] := rfl

@[simp] theorem keys_cons (p : K × V) (m : List (K × V)) : keys (p :: m : List (K × V)) = p.1 :: keys m := rfl

variable [DecidableEq K]

theorem get?_cons (k' : K) (v : V) (m : List (K × V)) (k : K) :
    get? ((k', v) :: m : List (K × V)) k = if k' = k then some v else get? m k := rfl

theorem set_cons (k' : K) (v' : V) (m : List (K × V)) (k : K) (v : V) :
    set ((k', v') :: m : List (K × V)) k v = if k' = k then (k, v) :: m else (k', v') :: set m k v := rfl

/-- a key that is not in `keys` is unbound (and conversely) -/
theorem get?_eq_none_iff {m : AMap K V} {k : K} : m.get? k = none ↔ k ∉ m.keys := by
  induction m with
  | nil => simp
  | cons p m ih =>
    obtain ⟨k', v'⟩ := p
    by_cases h : k' = k
    · simp [get?_cons, h]
    · have h' : ¬ k = k' := fun e => h e.symm
      simp [get?_cons, h, h', ih]

theorem get?_eq_none_of_not_mem_keys {m : AMap K V} {k : K} (h : k ∉ m.keys) : m.get? k = none :=
  get?_eq_none_iff.2 h

theorem mem_keys_of_get?_eq_some {m : AMap K V} {k : K} {v : V} (h : m.get? k = some v) : k ∈ m.keys := by
  by_cases hk : k ∈ m.keys
  · exact hk
  · rw [get?_eq_none_of_not_mem_keys hk] at h; cases h

/-- a bound key is bound to an entry of the list -/
theorem mem_of_get?_eq_some {m : AMap K V} {k : K} {v : V} (h : m.get? k = some v) :
    (k, v) ∈ m.toList := by
  induction m with
  | nil => cases h
  | cons p m ih =>
    obtain ⟨k', v'⟩ := p
    by_cases hk : k' = k
    · simp only [get?_cons, hk, if_true, Option.some.injEq] at h
      subst hk; subst h; exact List.mem_cons_self
    · simp only [get?_cons, hk, if_false] at h
      exact List.mem_cons_of_mem _ (ih h)

/-- with duplicate-free keys every entry is the binding of its key -/
theorem get?_of_mem {m : AMap K V} {k : K} {v : V} (hn : m.keys.Nodup) (h : (k, v) ∈ m.toList) :
    m.get? k = some v := by
  induction m with
  | nil => cases h
  | cons p m ih =>
    obtain ⟨k', v'⟩ := p
    simp only [keys_cons, List.nodup_cons] at hn
    rcases List.mem_cons.1 h with e | h'
    · cases e; simp [get?_cons]
    · have hk : k ∈ keys m := List.mem_map.2 ⟨(k, v), h', rfl⟩
      have : ¬ k' = k := fun e => hn.1 (e ▸ hk)
      simp only [get?_cons, this, if_false]
      exact ih hn.2 h'

theorem mem_keys_set {m : AMap K V} {k k' : K} {v : V} : k' ∈ (m.set k v).keys ↔ k' = k ∨ k' ∈ m.keys := by
  induction m with
  | nil => simp [set, keys]
  | cons p m ih =>
    obtain ⟨k₀, v₀⟩ := p
    by_cases h : k₀ = k
    · subst h; simp [set_cons]
    · simp only [set_cons, h, if_false, keys_cons, List.mem_cons, ih]
      constructor
      · rintro (e | e | e)
        · exact Or.inr (Or.inl e)
        · exact Or.inl e
        · exact Or.inr (Or.inr e)
      · rintro (e | e | e)
        · exact Or.inr (Or.inl e)
        · exact Or.inl e
        · exact Or.inr (Or.inr e)

/-- `set` overwrites in place or appends at the end -/
theorem keys_set (m : AMap K V) (k : K) (v : V) :
    (m.set k v).keys = if k ∈ m.keys then m.keys else m.keys ++ [k] := by
  induction m with
  | nil => simp [set, keys]
  | cons p m ih =>
    obtain ⟨k₀, v₀⟩ := p
    by_cases h : k₀ = k
    · subst h; simp [set_cons]
    · have h' : ¬ k = k₀ := fun e => h e.symm
      simp only [set_cons, h, if_false, keys_cons, ih, List.mem_cons, h', false_or]
      split <;> simp

/-- `set` never creates a duplicate key -/
theorem keys_set_nodup {m : AMap K V} (k : K) (v : V) (hn : m.keys.Nodup) : (m.set k v).keys.Nodup := by
  rw [keys_set]
  split
  · exact hn
  · next h =>
    rw [List.nodup_append]
    refine ⟨hn, by simp, ?_⟩
    intro a ha b hb
    simp only [List.mem_singleton] at hb
    subst hb
    exact fun e => h (e ▸ ha)

theorem get?_set (m : AMap K V) (k k' : K) (v : V) :
    (m.set k v).get? k' = if k = k' then some v else m.get? k' := by
  split
  · next h => subst h; exact get?_set_eq m k v
  · next h => exact get?_set_ne m v h

end AMap

variable {N : Type} [DecidableEq N]

/-! ### `Util` -/

namespace Util

@[simp] theorem get_nil (n : N) : Util.get ([] : List (N × List HI)) n = [] := rfl

theorem get_cons (k : N) (l : List HI) (u : List (N × List HI)) (n : N) :
    Util.get ((k, l) :: u : List (N × List HI)) n = if k = n then l else Util.get u n := by
  unfold Util.get
  rw [AMap.get?_cons]
  split <;> rfl

@[simp] theorem get_set_eq (u : Util N) (n : N) (l : List HI) : (u.set n l).get n = l := by
  simp [Util.get, Util.set]

theorem get_set_ne (u : Util N) {n n' : N} (l : List HI) (h : n ≠ n') : (u.set n l).get n' = u.get n' := by
  simp [Util.get, Util.set, AMap.get?_set_ne u l h]

theorem get_set (u : Util N) (n n' : N) (l : List HI) : (u.set n l).get n' = if n = n' then l else u.get n' := by
  split
  · next h => subst h; exact get_set_eq u n l
  · next h => exact get_set_ne u l h

theorem keys_set_nodup {u : Util N} (n : N) (l : List HI) (h : (AMap.keys u).Nodup) :
    (AMap.keys (u.set n l)).Nodup := AMap.keys_set_nodup n l h

theorem mem_keys_set {u : Util N} {n n' : N} {l : List HI} :
    n' ∈ AMap.keys (u.set n l) ↔ n' = n ∨ n' ∈ AMap.keys u := AMap.mem_keys_set

theorem get_of_not_mem_keys {u : Util N} {n : N} (h : n ∉ AMap.keys u) : u.get n = [] := by
  simp [Util.get, AMap.get?_eq_none_of_not_mem_keys h]

theorem mem_keys_of_get_ne_nil {u : Util N} {n : N} (h : u.get n ≠ []) : n ∈ AMap.keys u := by
  by_cases hk : n ∈ AMap.keys u
  · exact hk
  · exact absurd (get_of_not_mem_keys hk) h

/-- with duplicate-free keys every entry is what `get` returns -/
theorem get_of_mem {u : Util N} {n : N} {l : List HI} (hn : (AMap.keys u).Nodup)
    (h : (n, l) ∈ AMap.toList u) : u.get n = l := by
  simp [Util.get, AMap.get?_of_mem hn h]

/-- a non-empty `get` comes from an entry -/
theorem mem_of_get_ne_nil {u : Util N} {n : N} (h : u.get n ≠ []) : (n, u.get n) ∈ AMap.toList u := by
  unfold Util.get at h ⊢
  cases hg : AMap.get? u n with
  | none => simp [hg] at h
  | some v => simpa using AMap.mem_of_get?_eq_some hg

end Util

/-! ### `Queues` -/

namespace Queues

@[simp] theorem get_set_eq (qs : Queues N) (r : N) (q : Queue) : (qs.set r q).get r = q := by
  simp [Queues.get, Queues.set]

theorem get_set_ne (qs : Queues N) {r r' : N} (q : Queue) (h : r ≠ r') : (qs.set r q).get r' = qs.get r' := by
  simp [Queues.get, Queues.set, AMap.get?_set_ne qs q h]

theorem get_set (qs : Queues N) (r r' : N) (q : Queue) : (qs.set r q).get r' = if r = r' then q else qs.get r' := by
  split
  · next h => subst h; exact get_set_eq qs r q
  · next h => exact get_set_ne qs q h

theorem keys_set_nodup {qs : Queues N} (r : N) (q : Queue) (h : (AMap.keys qs).Nodup) :
    (AMap.keys (qs.set r q)).Nodup := AMap.keys_set_nodup r q h

end Queues

/-! ## 2. The steps of a cycle, in terms of `Util.get` -/

/-! ### flush -/

theorem flushOutputs_nil (u : Util N) : flushOutputs [] u = u := rfl

theorem flushOutputs_cons (o : N) (outs : List N) (u : Util N) :
    flushOutputs (o :: outs) u = flushOutputs outs (u.set o ((u.get o).filter (fun h => h.st == .D))) := rfl

/-- exact content of every unit after the flush -/
theorem flushOutputs_get (outs : List N) (u : Util N) (n : N) :
    (flushOutputs outs u).get n = if n ∈ outs then (u.get n).filter (fun h => h.st == .D) else u.get n := by
  induction outs generalizing u with
  | nil => simp [flushOutputs_nil]
  | cons o outs ih =>
    rw [flushOutputs_cons, ih, Util.get_set]
    by_cases h1 : o = n
    · subst h1; simp [List.filter_filter]
    · have h2 : ¬ n = o := fun e => h1 e.symm
      simp [h1, h2]

theorem flushOutputs_keys_nodup (outs : List N) {u : Util N} (h : (AMap.keys u).Nodup) :
    (AMap.keys (flushOutputs outs u)).Nodup := by
  induction outs generalizing u with
  | nil => exact h
  | cons o outs ih => rw [flushOutputs_cons]; exact ih (Util.keys_set_nodup _ _ h)

theorem mem_keys_flushOutputs {outs : List N} {u : Util N} {n : N} :
    n ∈ AMap.keys (flushOutputs outs u) ↔ n ∈ outs ∨ n ∈ AMap.keys u := by
  induction outs generalizing u with
  | nil => simp [flushOutputs_nil]
  | cons o outs ih =>
    rw [flushOutputs_cons, ih, Util.mem_keys_set, List.mem_cons]
    constructor
    · rintro (h | h | h)
      · exact Or.inl (Or.inr h)
      · exact Or.inl (Or.inl h)
      · exact Or.inr h
    · rintro ((h | h) | h)
      · exact Or.inr (Or.inl h)
      · exact Or.inl h
      · exact Or.inr (Or.inr h)

theorem flushOutputs_get_sublist (outs : List N) (u : Util N) (n : N) :
    ((flushOutputs outs u).get n).Sublist (u.get n) := by
  rw [flushOutputs_get]; split
  · exact List.filter_sublist
  · exact List.Sublist.refl _

/-! ### the fill loop -/

/-- The candidates the fill loop takes: `len` is the current content length of the destination, `mem` the memory
flag. (`fillLoop_eq` shows that `fillLoop` appends exactly these.) -/
def fillTaken (prog : List (Instr N)) (d : UnitM N) : List (N × Nat) → Nat → Bool → List (N × Nat)
  | [], _, _ => []
  | c :: cs, len, mem =>
    if len = d.width then []
    else if mem && capIn prog c.2 d.acl then fillTaken prog d cs len mem
    else c :: fillTaken prog d cs (len + 1) (mem || capIn prog c.2 d.acl)

/-- exact result of the fill loop -/
theorem fillLoop_eq (prog : List (Instr N)) (d : UnitM N) (cs : List (N × Nat)) (cur : List HI) (mem : Bool)
    (moved : List (N × Nat)) :
    fillLoop prog d cs cur mem moved =
      (cur ++ (fillTaken prog d cs cur.length mem).map (fun c => (⟨c.2, .U⟩ : HI)),
       mem || (fillTaken prog d cs cur.length mem).any (fun c => capIn prog c.2 d.acl),
       moved ++ fillTaken prog d cs cur.length mem) := by
  induction cs generalizing cur mem moved with
  | nil => simp [fillLoop, fillTaken]
  | cons c cs ih =>
    unfold fillLoop fillTaken
    by_cases h1 : cur.length = d.width
    · simp [h1]
    · simp only [h1, if_false]
      cases h2 : (mem && capIn prog c.2 d.acl)
      · simp only [Bool.false_eq_true, if_false]
        rw [ih (cur ++ [(⟨c.2, .U⟩ : HI)]) (mem || capIn prog c.2 d.acl) (moved ++ [c])]
        simp [Bool.or_assoc]
      · simp only [if_true]; exact ih cur mem moved

theorem fillTaken_sublist (prog : List (Instr N)) (d : UnitM N) (cs : List (N × Nat)) (len : Nat) (mem : Bool) :
    (fillTaken prog d cs len mem).Sublist cs := by
  induction cs generalizing len mem with
  | nil => simp [fillTaken]
  | cons c cs ih =>
    unfold fillTaken
    split
    · exact List.nil_sublist _
    · split
      · exact (ih len mem).cons _
      · exact (ih _ _).cons_cons _

/-- the loop never fills beyond the width (if it started within it) -/
theorem fillTaken_length (prog : List (Instr N)) (d : UnitM N) (cs : List (N × Nat)) (len : Nat) (mem : Bool)
    (h : len ≤ d.width) : len + (fillTaken prog d cs len mem).length ≤ d.width := by
  induction cs generalizing len mem with
  | nil => simpa [fillTaken] using h
  | cons c cs ih =>
    unfold fillTaken
    split
    · simpa using h
    · next h1 =>
      split
      · exact ih len mem h
      · have := ih (len + 1) (mem || capIn prog c.2 d.acl) (by omega)
        simp only [List.length_cons]; omega

/-- memory-flag accounting: (flag before) + (number of taken candidates that need memory) = (flag after), as
numbers. Hence at most one taken candidate needs memory, and none if the flag was already set. -/
theorem fillTaken_mem (prog : List (Instr N)) (d : UnitM N) (cs : List (N × Nat)) (len : Nat) (mem : Bool) :
    mem.toNat + ((fillTaken prog d cs len mem).filter (fun c => capIn prog c.2 d.acl)).length =
      (mem || (fillTaken prog d cs len mem).any (fun c => capIn prog c.2 d.acl)).toNat := by
  induction cs generalizing len mem with
  | nil => simp [fillTaken]
  | cons c cs ih =>
    unfold fillTaken
    split
    · simp
    · split
      · exact ih len mem
      · next h2 =>
        have := ih (len + 1) (mem || capIn prog c.2 d.acl)
        simp only [List.filter_cons, List.any_cons]
        cases hm : mem <;> cases hc : capIn prog c.2 d.acl <;> simp [hm, hc] at this h2 ⊢ <;> omega

/-- why the loop stopped: the unit is full, or every candidate was taken or skipped because it needs the memory
port, which was busy (and therefore is busy at the end) -/
theorem fillTaken_stop (prog : List (Instr N)) (d : UnitM N) (cs : List (N × Nat)) (len : Nat) (mem : Bool) :
    len + (fillTaken prog d cs len mem).length = d.width ∨
    ∀ c ∈ cs, c ∈ fillTaken prog d cs len mem ∨
      (capIn prog c.2 d.acl = true ∧
        (mem || (fillTaken prog d cs len mem).any (fun c => capIn prog c.2 d.acl)) = true) := by
  induction cs generalizing len mem with
  | nil => right; simp
  | cons c cs ih =>
    unfold fillTaken
    split
    · next h => left; simpa using h
    · split
      · next h1 h2 =>
        rcases ih len mem with h | h
        · exact Or.inl h
        · right
          intro c' hc'
          rcases List.mem_cons.1 hc' with e | e
          · subst e
            simp only [Bool.and_eq_true] at h2
            exact Or.inr ⟨h2.2, by simp [h2.1]⟩
          · exact h c' e
      · next h1 h2 =>
        rcases ih (len + 1) (mem || capIn prog c.2 d.acl) with h | h
        · left; simp only [List.length_cons]; omega
        · right
          intro c' hc'
          rcases List.mem_cons.1 hc' with e | e
          · subst e; exact Or.inl List.mem_cons_self
          · rcases h c' e with h' | h'
            · exact Or.inl (List.mem_cons_of_mem _ h')
            · refine Or.inr ⟨h'.1, ?_⟩
              have := h'.2
              simp only [List.any_cons, Bool.or_eq_true] at this ⊢
              rcases this with (a | a) | a
              · exact Or.inl a
              · exact Or.inr (Or.inl a)
              · exact Or.inr (Or.inr a)

/-! ### removal of the moved instructions -/

/-- exact content of every unit after `_clr_src_units` -/
theorem removeMoved_get (u : Util N) (ms : List (N × Nat)) (n : N) :
    (removeMoved u ms).get n = (u.get n).filter (fun x => !(ms.any (fun m => m.1 == n && m.2 == x.idx))) := by
  induction ms generalizing u with
  | nil =>
    symm; apply List.filter_eq_self.2; intro x _; simp
  | cons m ms ih =>
    obtain ⟨h, i⟩ := m
    unfold removeMoved
    rw [ih, Util.get_set]
    by_cases hn : h = n
    · subst hn
      simp only [if_true, List.filter_filter, List.any_cons, beq_self_eq_true, Bool.true_and]
      apply List.filter_congr
      intro x _
      have e : (x.idx != i) = !(i == x.idx) := by
        show (!(x.idx == i)) = !(i == x.idx)
        rw [show (x.idx == i) = (i == x.idx) from BEq.comm]
      rw [e]
      cases (i == x.idx) <;> cases (ms.any fun m => m.1 == h && m.2 == x.idx) <;> rfl
    · have hb : (h == n) = false := by simp [hn]
      simp only [hn, if_false, List.any_cons, hb, Bool.false_and, Bool.false_or]

theorem removeMoved_keys_nodup {u : Util N} (ms : List (N × Nat)) (h : (AMap.keys u).Nodup) :
    (AMap.keys (removeMoved u ms)).Nodup := by
  induction ms generalizing u with
  | nil => exact h
  | cons m ms ih =>
    obtain ⟨a, i⟩ := m
    unfold removeMoved
    exact ih (Util.keys_set_nodup _ _ h)

theorem mem_keys_removeMoved {u : Util N} {ms : List (N × Nat)} {n : N} :
    n ∈ AMap.keys (removeMoved u ms) ↔ n ∈ ms.map (·.1) ∨ n ∈ AMap.keys u := by
  induction ms generalizing u with
  | nil => simp [removeMoved]
  | cons m ms ih =>
    obtain ⟨a, i⟩ := m
    unfold removeMoved
    rw [ih, Util.mem_keys_set, List.map_cons, List.mem_cons]
    constructor
    · rintro (h | h | h)
      · exact Or.inl (Or.inr h)
      · exact Or.inl (Or.inl h)
      · exact Or.inr h
    · rintro ((h | h) | h)
      · exact Or.inr (Or.inl h)
      · exact Or.inl h
      · exact Or.inr (Or.inr h)

theorem removeMoved_get_sublist (u : Util N) (ms : List (N × Nat)) (n : N) :
    ((removeMoved u ms).get n).Sublist (u.get n) := by
  rw [removeMoved_get]; exact List.filter_sublist

/-! ### sorting (`isort`, `sortByKey`) -/

theorem insertBy_perm {α : Type} (le : α → α → Bool) (x : α) (l : List α) : (insertBy le x l).Perm (x :: l) := by
  induction l with
  | nil => exact List.Perm.refl _
  | cons y ys ih =>
    unfold insertBy
    split
    · exact List.Perm.refl _
    · exact ((List.Perm.cons y ih).trans (List.Perm.swap x y ys))

theorem isort_perm {α : Type} (le : α → α → Bool) (l : List α) : (isort le l).Perm l := by
  induction l with
  | nil => exact List.Perm.refl _
  | cons x xs ih => exact (insertBy_perm le x _).trans (List.Perm.cons x ih)

theorem mem_isort {α : Type} {le : α → α → Bool} {l : List α} {a : α} : a ∈ isort le l ↔ a ∈ l :=
  (isort_perm le l).mem_iff

theorem sortByKey_perm {α : Type} (key : α → Nat) (l : List α) : (sortByKey key l).Perm l := isort_perm _ l

theorem mem_sortByKey {α : Type} {key : α → Nat} {l : List α} {a : α} : a ∈ sortByKey key l ↔ a ∈ l :=
  (sortByKey_perm key l).mem_iff

theorem insertBy_key_sorted {α : Type} (key : α → Nat) (x : α) (l : List α)
    (h : l.Pairwise (fun a b => key a ≤ key b)) :
    (insertBy (fun a b => decide (key a ≤ key b)) x l).Pairwise (fun a b => key a ≤ key b) := by
  induction l with
  | nil => simp [insertBy]
  | cons y ys ih =>
    unfold insertBy
    rw [List.pairwise_cons] at h
    split
    · next hxy =>
      have hxy : key x ≤ key y := by simpa using hxy
      refine List.pairwise_cons.2 ⟨?_, List.pairwise_cons.2 h⟩
      intro z hz
      rcases List.mem_cons.1 hz with e | e
      · subst e; exact hxy
      · exact Nat.le_trans hxy (h.1 z e)
    · next hxy =>
      have hxy : key y ≤ key x := by
        have : ¬ key x ≤ key y := by simpa using hxy
        omega
      refine List.pairwise_cons.2 ⟨?_, ih h.2⟩
      intro z hz
      rcases List.mem_cons.1 ((insertBy_perm _ x ys).mem_iff.1 hz) with e | e
      · subst e; exact hxy
      · exact h.1 z e

/-- `sortByKey` sorts -/
theorem sortByKey_sorted {α : Type} (key : α → Nat) (l : List α) :
    (sortByKey key l).Pairwise (fun a b => key a ≤ key b) := by
  induction l with
  | nil => simp [sortByKey, isort]
  | cons x xs ih => exact insertBy_key_sorted key x _ ih

/-! ### candidates -/

theorem mem_candsOf {prog : List (Instr N)} {d : UnitM N} {u : Util N} {host : N} {c : N × Nat} :
    c ∈ candsOf prog d u host ↔ c.1 = host ∧ ∃ h ∈ u.get host, validCand prog d h = true ∧ h.idx = c.2 := by
  obtain ⟨a, i⟩ := c
  simp only [candsOf, List.mem_map, List.mem_filter, Prod.mk.injEq]
  constructor
  · rintro ⟨h, ⟨hm, hv⟩, rfl, rfl⟩; exact ⟨rfl, h, hm, hv, rfl⟩
  · rintro ⟨rfl, h, hm, hv, rfl⟩; exact ⟨h, ⟨hm, hv⟩, rfl, rfl⟩

theorem candidates_perm (prog : List (Instr N)) (d : FuncU N) (u : Util N) :
    (candidates prog d u).Perm (d.preds.flatMap (candsOf prog d.model u)) := sortByKey_perm _ _

/-- a candidate is a non-`D` instruction of a predecessor whose capability the destination supports -/
theorem mem_candidates {prog : List (Instr N)} {d : FuncU N} {u : Util N} {c : N × Nat} :
    c ∈ candidates prog d u ↔
      c.1 ∈ d.preds ∧ ∃ h ∈ u.get c.1, validCand prog d.model h = true ∧ h.idx = c.2 := by
  rw [(candidates_perm prog d u).mem_iff, List.mem_flatMap]
  constructor
  · rintro ⟨host, hh, hc⟩
    have := mem_candsOf.1 hc
    rw [this.1]; exact ⟨hh, this.2⟩
  · rintro ⟨hh, hc⟩
    exact ⟨c.1, hh, mem_candsOf.2 ⟨rfl, hc⟩⟩

/-- candidates are tried oldest first -/
theorem candidates_sorted (prog : List (Instr N)) (d : FuncU N) (u : Util N) :
    (candidates prog d u).Pairwise (fun a b => a.2 ≤ b.2) := sortByKey_sorted _ _

/-! ### filling one destination -/

/-- the `(host, index)` pairs destination `d` takes from record `u` when the memory flag is `mem` -/
def unitTaken (prog : List (Instr N)) (d : FuncU N) (u : Util N) (mem : Bool) : List (N × Nat) :=
  fillTaken prog d.model (candidates prog d u) (u.get d.model.name).length mem

theorem fillUnit_fst (prog : List (Instr N)) (d : FuncU N) (u : Util N) (mem : Bool) :
    (fillUnit prog d u mem).1 =
      removeMoved (u.set d.model.name
        (u.get d.model.name ++ (unitTaken prog d u mem).map (fun c => (⟨c.2, .U⟩ : HI)))) (unitTaken prog d u mem) := by
  simp [fillUnit, fillLoop_eq, unitTaken]

/-- the memory flag after filling `d` -/
theorem fillUnit_snd (prog : List (Instr N)) (d : FuncU N) (u : Util N) (mem : Bool) :
    (fillUnit prog d u mem).2 = (mem || (unitTaken prog d u mem).any (fun c => capIn prog c.2 d.model.acl)) := by
  simp [fillUnit, fillLoop_eq, unitTaken]

/-- exact content of every unit after filling `d` -/
theorem fillUnit_get (prog : List (Instr N)) (d : FuncU N) (u : Util N) (mem : Bool) (n : N) :
    (fillUnit prog d u mem).1.get n =
      (if d.model.name = n then u.get n ++ (unitTaken prog d u mem).map (fun c => (⟨c.2, .U⟩ : HI)) else u.get n).filter
        (fun x => !((unitTaken prog d u mem).any (fun m => m.1 == n && m.2 == x.idx))) := by
  rw [fillUnit_fst, removeMoved_get, Util.get_set]
  by_cases h : d.model.name = n
  · subst h; simp
  · simp [h]

theorem mem_unitTaken {prog : List (Instr N)} {d : FuncU N} {u : Util N} {mem : Bool} {c : N × Nat}
    (h : c ∈ unitTaken prog d u mem) :
    c.1 ∈ d.preds ∧ ∃ x ∈ u.get c.1, validCand prog d.model x = true ∧ x.idx = c.2 :=
  mem_candidates.1 ((fillTaken_sublist _ _ _ _ _).subset h)

theorem unitTaken_sublist (prog : List (Instr N)) (d : FuncU N) (u : Util N) (mem : Bool) :
    (unitTaken prog d u mem).Sublist (candidates prog d u) := fillTaken_sublist _ _ _ _ _

/-- a unit other than `d` only loses instructions -/
theorem fillUnit_get_of_ne (prog : List (Instr N)) (d : FuncU N) (u : Util N) (mem : Bool) {n : N}
    (h : d.model.name ≠ n) :
    (fillUnit prog d u mem).1.get n =
      (u.get n).filter (fun x => !((unitTaken prog d u mem).any (fun m => m.1 == n && m.2 == x.idx))) := by
  rw [fillUnit_get]; simp [h]

/-- a destination that is not its own predecessor keeps its content and gets the taken candidates appended -/
theorem fillUnit_get_self (prog : List (Instr N)) (d : FuncU N) (u : Util N) (mem : Bool)
    (h : d.model.name ∉ d.preds) :
    (fillUnit prog d u mem).1.get d.model.name =
      u.get d.model.name ++ (unitTaken prog d u mem).map (fun c => (⟨c.2, .U⟩ : HI)) := by
  rw [fillUnit_get]
  simp only [if_true]
  apply List.filter_eq_self.2
  intro x _
  simp only [Bool.not_eq_true', List.any_eq_false, Bool.and_eq_true, beq_iff_eq, not_and]
  intro c hc e
  exact absurd (e ▸ (mem_unitTaken hc).1) h

/-- in every unit, the new content is a sub-list of the old content plus (for `d`) the taken candidates -/
theorem fillUnit_get_sublist (prog : List (Instr N)) (d : FuncU N) (u : Util N) (mem : Bool) (n : N) :
    ((fillUnit prog d u mem).1.get n).Sublist
      (if d.model.name = n then u.get n ++ (unitTaken prog d u mem).map (fun c => (⟨c.2, .U⟩ : HI)) else u.get n) := by
  rw [fillUnit_get]; exact List.filter_sublist

theorem fillUnit_keys_nodup (prog : List (Instr N)) (d : FuncU N) {u : Util N} (mem : Bool)
    (h : (AMap.keys u).Nodup) : (AMap.keys (fillUnit prog d u mem).1).Nodup := by
  rw [fillUnit_fst]; exact removeMoved_keys_nodup _ (Util.keys_set_nodup _ _ h)

theorem mem_keys_fillUnit {prog : List (Instr N)} {d : FuncU N} {u : Util N} {mem : Bool} {n : N}
    (h : n ∈ AMap.keys (fillUnit prog d u mem).1) : n = d.model.name ∨ n ∈ d.preds ∨ n ∈ AMap.keys u := by
  rw [fillUnit_fst, mem_keys_removeMoved, Util.mem_keys_set] at h
  rcases h with h | h | h
  · obtain ⟨c, hc, rfl⟩ := List.mem_map.1 h
    exact Or.inr (Or.inl (mem_unitTaken hc).1)
  · exact Or.inl h
  · exact Or.inr (Or.inr h)

/-- the unit never exceeds its width by filling -/
theorem fillUnit_length_self (prog : List (Instr N)) (d : FuncU N) (u : Util N) (mem : Bool)
    (h : (u.get d.model.name).length ≤ d.model.width) :
    ((fillUnit prog d u mem).1.get d.model.name).length ≤ d.model.width := by
  have h1 := (fillUnit_get_sublist prog d u mem d.model.name).length_le
  simp only [if_true, List.length_append, List.length_map] at h1
  have h2 := fillTaken_length prog d.model (candidates prog d u) _ mem h
  unfold unitTaken at h1
  omega

/-- memory accounting for one destination -/
theorem fillUnit_mem (prog : List (Instr N)) (d : FuncU N) (u : Util N) (mem : Bool) :
    mem.toNat + ((unitTaken prog d u mem).filter (fun c => capIn prog c.2 d.model.acl)).length =
      (fillUnit prog d u mem).2.toNat := by
  rw [fillUnit_snd]; exact fillTaken_mem _ _ _ _ _

/-! ### filling all destinations -/

/-- invariant principle for `fillDests` -/
theorem fillDests_induction (prog : List (Instr N)) (P : Util N → Bool → Prop) (ds : List (FuncU N))
    (hstep : ∀ d ∈ ds, ∀ u mem, P u mem → P (fillUnit prog d u mem).1 (fillUnit prog d u mem).2)
    (u : Util N) (mem : Bool) (h : P u mem) :
    P (fillDests prog ds u mem).1 (fillDests prog ds u mem).2 := by
  induction ds generalizing u mem with
  | nil => exact h
  | cons d ds ih =>
    unfold fillDests
    exact ih (fun d' hd' => hstep d' (List.mem_cons_of_mem _ hd')) _ _ (hstep d List.mem_cons_self u mem h)

/-- invariant principle for `moveFlights`: holds after the flush (memory flag `false`), preserved by every
destination -/
theorem moveFlights_induction (p : Proc N) (prog : List (Instr N)) (P : Util N → Bool → Prop) (u : Util N)
    (h0 : P (flushOutputs p.outBoundary u) false)
    (hstep : ∀ d ∈ p.dests, ∀ u mem, P u mem → P (fillUnit prog d u mem).1 (fillUnit prog d u mem).2) :
    P (moveFlights p prog u).1 (moveFlights p prog u).2 :=
  fillDests_induction prog P p.dests hstep _ _ h0

/-! ### issue -/

/-- a port is usable for capability `cap` -/
def portUsable (cap : N) (u : Util N) (mem : Bool) (port : UnitM N) : Prop :=
  cap ∈ port.caps ∧ (mem && decide (cap ∈ port.acl)) = false ∧ (u.get port.name).length ≠ port.width

/-- `tryPorts` picks the first usable port, appends the instruction there and updates the memory flag -/
theorem tryPorts_eq_some {cap : N} {i : Nat} {ports : List (UnitM N)} {u : Util N} {mem : Bool}
    {r : Util N × Bool} (h : tryPorts cap i ports u mem = some r) :
    ∃ pre port post, ports = pre ++ port :: post ∧ portUsable cap u mem port ∧
      (∀ q ∈ pre, ¬ portUsable cap u mem q) ∧
      r = (u.set port.name (u.get port.name ++ [⟨i, .U⟩]), mem || decide (cap ∈ port.acl)) := by
  induction ports with
  | nil => simp [tryPorts] at h
  | cons q qs ih =>
    unfold tryPorts at h
    by_cases h1 : cap ∈ q.caps
    · simp only [h1, if_true] at h
      by_cases h2 : ((mem && decide (cap ∈ q.acl)) || decide ((u.get q.name).length = q.width)) = true
      · have h2' := h2
        simp only [Bool.or_eq_true, decide_eq_true_eq] at h2'
        rw [if_pos h2] at h
        obtain ⟨pre, port, post, e, hu, hpre, hr⟩ := ih h
        refine ⟨q :: pre, port, post, by simp [e], hu, ?_, hr⟩
        intro q' hq'
        rcases List.mem_cons.1 hq' with e' | e'
        · subst e'
          rintro ⟨_, a, b⟩
          rcases h2' with c | c
          · rw [a] at c; cases c
          · exact b c
        · exact hpre q' e'
      · have h2' := h2
        simp only [Bool.or_eq_true, decide_eq_true_eq, not_or, Bool.not_eq_true] at h2'
        rw [if_neg h2] at h
        refine ⟨[], q, qs, rfl, ⟨h1, h2'.1, h2'.2⟩, by simp, ?_⟩
        simpa using h.symm
    · simp only [h1, if_false] at h
      obtain ⟨pre, port, post, e, hu, hpre, hr⟩ := ih h
      refine ⟨q :: pre, port, post, by simp [e], hu, ?_, hr⟩
      intro q' hq'
      rcases List.mem_cons.1 hq' with e' | e'
      · subst e'; exact fun hq => h1 hq.1
      · exact hpre q' e'

theorem tryPorts_eq_none_iff {cap : N} {i : Nat} {ports : List (UnitM N)} {u : Util N} {mem : Bool} :
    tryPorts cap i ports u mem = none ↔ ∀ q ∈ ports, ¬ portUsable cap u mem q := by
  induction ports with
  | nil => simp [tryPorts]
  | cons q qs ih =>
    unfold tryPorts
    by_cases h1 : cap ∈ q.caps
    · simp only [h1, if_true]
      by_cases h2b : ((mem && decide (cap ∈ q.acl)) || decide ((u.get q.name).length = q.width)) = true
      · have h2 : (mem && decide (cap ∈ q.acl)) = true ∨ (u.get q.name).length = q.width := by
          simpa only [Bool.or_eq_true, decide_eq_true_eq] using h2b
        rw [if_pos h2b, ih]
        constructor
        · intro h q' hq'
          rcases List.mem_cons.1 hq' with e' | e'
          · subst e'
            rintro ⟨_, a, b⟩
            rcases h2 with c | c
            · rw [a] at c; cases c
            · exact b c
          · exact h q' e'
        · intro h q' hq'; exact h q' (List.mem_cons_of_mem _ hq')
      · have h2 : ¬ ((mem && decide (cap ∈ q.acl)) = true ∨ (u.get q.name).length = q.width) := by
          simpa only [Bool.or_eq_true, decide_eq_true_eq] using h2b
        rw [if_neg h2b]
        simp only [reduceCtorEq, false_iff]
        intro h
        apply h q List.mem_cons_self
        simp only [not_or, Bool.not_eq_true] at h2
        exact ⟨h1, h2.1, h2.2⟩
    · simp only [h1, if_false, ih]
      constructor
      · intro h q' hq'
        rcases List.mem_cons.1 hq' with e' | e'
        · subst e'; exact fun hq => h1 hq.1
        · exact h q' e'
      · intro h q' hq'; exact h q' (List.mem_cons_of_mem _ hq')

theorem issueLoop_entered_ge (ports : List (UnitM N)) (l : List (Instr N)) (u : Util N) (mem : Bool) (e : Nat) :
    e ≤ (issueLoop ports l u mem e).2 := by
  induction l generalizing u mem e with
  | nil => simp [issueLoop]
  | cons ins rest ih =>
    unfold issueLoop
    cases tryPorts ins.cap e ports u mem with
    | none => simp
    | some r => have := ih r.1 r.2 (e + 1); simp only; omega

/-- `entered` grows by at most the number of instructions offered -/
theorem issueLoop_entered_le (ports : List (UnitM N)) (l : List (Instr N)) (u : Util N) (mem : Bool) (e : Nat) :
    (issueLoop ports l u mem e).2 ≤ e + l.length := by
  induction l generalizing u mem e with
  | nil => simp [issueLoop]
  | cons ins rest ih =>
    unfold issueLoop
    cases tryPorts ins.cap e ports u mem with
    | none => simp
    | some r => have := ih r.1 r.2 (e + 1); simp only [List.length_cons]; omega

theorem issueLoop_drop_entered_le (ports : List (UnitM N)) (prog : List (Instr N)) (u : Util N) (mem : Bool)
    (e : Nat) (h : e ≤ prog.length) : (issueLoop ports (prog.drop e) u mem e).2 ≤ prog.length := by
  have := issueLoop_entered_le ports (prog.drop e) u mem e
  simp only [List.length_drop] at this
  omega

theorem drop_eq_cons {α : Type} {l : List α} {e : Nat} {a : α} {rest : List α} (h : l.drop e = a :: rest) :
    l[e]? = some a ∧ l.drop (e + 1) = rest := by
  have hlt : e < l.length := by
    by_cases hlt : e < l.length
    · exact hlt
    · rw [List.drop_eq_nil_of_le (by omega)] at h; cases h
  rw [List.drop_eq_getElem_cons hlt] at h
  injection h with h1 h2
  exact ⟨by rw [List.getElem?_eq_getElem hlt, h1], h2⟩

/-- Invariant principle for the issue loop run on `prog.drop e`: `P` is preserved by every single issue (of
instruction `e = prog[e]` into the first usable port); at the end either the program is exhausted or no port takes
the next instruction. -/
theorem issueLoop_induction (prog : List (Instr N)) (ports : List (UnitM N)) (P : Util N → Bool → Nat → Prop)
    (hstep : ∀ u mem e ins pre port post, P u mem e → prog[e]? = some ins → ports = pre ++ port :: post →
      portUsable ins.cap u mem port → (∀ q ∈ pre, ¬ portUsable ins.cap u mem q) →
      P (u.set port.name (u.get port.name ++ [⟨e, .U⟩])) (mem || decide (ins.cap ∈ port.acl)) (e + 1))
    (u : Util N) (mem : Bool) (e : Nat) (h : P u mem e) :
    ∃ mem', P (issueLoop ports (prog.drop e) u mem e).1 mem' (issueLoop ports (prog.drop e) u mem e).2 ∧
      ∀ ins, prog[(issueLoop ports (prog.drop e) u mem e).2]? = some ins →
        tryPorts ins.cap (issueLoop ports (prog.drop e) u mem e).2 ports
          (issueLoop ports (prog.drop e) u mem e).1 mem' = none := by
  generalize hl : prog.drop e = l
  induction l generalizing u mem e with
  | nil =>
    refine ⟨mem, h, ?_⟩
    intro ins hins
    simp only [issueLoop] at hins
    have : prog.length ≤ e := List.drop_eq_nil_iff.1 hl
    rw [List.getElem?_eq_none this] at hins; cases hins
  | cons ins rest ih =>
    obtain ⟨hins, hrest⟩ := drop_eq_cons hl
    unfold issueLoop
    cases ht : tryPorts ins.cap e ports u mem with
    | none =>
      refine ⟨mem, h, ?_⟩
      intro ins' hins'
      simp only at hins'
      rw [hins] at hins'; cases hins'
      exact ht
    | some r =>
      obtain ⟨pre, port, post, hp, hu, hpre, hr⟩ := tryPorts_eq_some ht
      subst hr
      exact ih _ _ (e + 1) (hstep u mem e ins pre port post h hins hp hu hpre) hrest

/-! ### labels -/

/-- the label instruction `i` gets in `unit` (when labelling succeeds): `S` iff it was loaded there in the previous
cycle, else `U`/`D` by the queue test -/
def labelOf (prog : List (Instr N)) (qs : Queues N) (unit : UnitM N) (old : List HI) (i : Nat) : Stall :=
  if wasLoaded old i then .S
  else match prog[i]? with
    | none => .D
    | some ins =>
      match regsAvail qs unit i ins with
      | .ok (some _) => .U
      | _ => .D

/-- the dequeues instruction `i` requests in `unit` -/
def clearsOf (prog : List (Instr N)) (qs : Queues N) (unit : UnitM N) (old : List HI) (i : Nat) : List (N × Nat) :=
  if wasLoaded old i then []
  else match prog[i]? with
    | none => []
    | some ins =>
      match regsAvail qs unit i ins with
      | .ok (some regs) => regs.map (fun x => (x, i))
      | _ => []

theorem labelOf_eq_S_iff (prog : List (Instr N)) (qs : Queues N) (unit : UnitM N) (old : List HI) (i : Nat) :
    labelOf prog qs unit old i = .S ↔ wasLoaded old i = true := by
  unfold labelOf
  split
  · simp [*]
  · next h =>
    simp only [h]
    split
    · simp
    · split <;> simp

/-- on success `labelList` keeps the instructions and their order; the labels are `labelOf`, the requested clears
`clearsOf` -/
theorem labelList_ok {prog : List (Instr N)} {qs : Queues N} {unit : UnitM N} {old l : List HI}
    {r : List HI × List (N × Nat)} (h : labelList prog qs unit old l = .ok r) :
    r.1 = l.map (fun x => (⟨x.idx, labelOf prog qs unit old x.idx⟩ : HI)) ∧
    r.2 = l.flatMap (fun x => clearsOf prog qs unit old x.idx) := by
  induction l generalizing r with
  | nil => simp only [labelList] at h; cases h; simp
  | cons x xs ih =>
    cases hrec : labelList prog qs unit old xs with
    | error f =>
      unfold labelList at h
      simp only [hrec] at h
      split at h
      · cases h
      · split at h
        · cases h
        · split at h <;> cases h
    | ok r' =>
      obtain ⟨ih1, ih2⟩ := ih hrec
      by_cases hw : wasLoaded old x.idx = true
      · simp only [labelList, hw, if_true, hrec] at h
        cases h
        simp [labelOf, clearsOf, hw, ih1, ih2]
      · cases hp : prog[x.idx]? with
        | none => simp only [labelList, hw, hp] at h; cases h
        | some ins =>
          cases hr : regsAvail qs unit x.idx ins with
          | error f => simp only [labelList, hw, hp, hr] at h; cases h
          | ok o =>
            cases o with
            | none =>
              simp only [labelList, hw, hp, hr, hrec] at h
              cases h
              simp [labelOf, clearsOf, hw, hp, hr, ih1, ih2]
            | some regs =>
              simp only [labelList, hw, hp, hr, hrec] at h
              cases h
              simp [labelOf, clearsOf, hw, hp, hr, ih1, ih2]

theorem labelList_idx {prog : List (Instr N)} {qs : Queues N} {unit : UnitM N} {old l : List HI}
    {r : List HI × List (N × Nat)} (h : labelList prog qs unit old l = .ok r) :
    r.1.map (·.idx) = l.map (·.idx) := by
  rw [(labelList_ok h).1, List.map_map]; rfl

theorem labelList_length {prog : List (Instr N)} {qs : Queues N} {unit : UnitM N} {old l : List HI}
    {r : List HI × List (N × Nat)} (h : labelList prog qs unit old l = .ok r) : r.1.length = l.length := by
  rw [(labelList_ok h).1, List.length_map]

/-- label `S` iff the instruction was loaded in this unit in the previous cycle -/
theorem labelList_S_iff {prog : List (Instr N)} {qs : Queues N} {unit : UnitM N} {old l : List HI}
    {r : List HI × List (N × Nat)} (h : labelList prog qs unit old l = .ok r) {x : HI} (hx : x ∈ r.1) :
    x.st = .S ↔ wasLoaded old x.idx = true := by
  rw [(labelList_ok h).1] at hx
  obtain ⟨y, _, rfl⟩ := List.mem_map.1 hx
  exact labelOf_eq_S_iff _ _ _ _ _

/-! ### `lookupUnit` -/

theorem lookupUnit_some {us : List (UnitM N)} {n : N} {v : UnitM N} (h : lookupUnit us n = some v) :
    v ∈ us ∧ v.name = n := by
  induction us with
  | nil => cases h
  | cons u us ih =>
    unfold lookupUnit at h
    cases hl : lookupUnit us n with
    | some w =>
      simp only [hl] at h; cases h
      exact ⟨List.mem_cons_of_mem _ (ih hl).1, (ih hl).2⟩
    | none =>
      simp only [hl] at h
      by_cases e : u.name = n
      · simp only [e, if_true] at h; cases h; exact ⟨List.mem_cons_self, e⟩
      · simp [e] at h

theorem lookupUnit_eq_none_iff {us : List (UnitM N)} {n : N} : lookupUnit us n = none ↔ n ∉ us.map (·.name) := by
  induction us with
  | nil => simp [lookupUnit]
  | cons u us ih =>
    unfold lookupUnit
    cases hl : lookupUnit us n with
    | some w =>
      have := (lookupUnit_some hl)
      simp only [reduceCtorEq, List.map_cons, List.mem_cons, not_or, false_iff, not_and, Classical.not_not]
      intro _
      exact List.mem_map.2 ⟨w, this.1, this.2⟩
    | none =>
      have hn := ih.1 hl
      by_cases e : u.name = n
      · simp [e]
      · have e' : ¬ n = u.name := fun x => e x.symm
        simp [e, e', hn]

/-- with unique names, `lookupUnit` finds the unit of that name -/
theorem lookupUnit_of_mem {us : List (UnitM N)} {v : UnitM N} (hn : (us.map (·.name)).Nodup) (hv : v ∈ us) :
    lookupUnit us v.name = some v := by
  induction us with
  | nil => cases hv
  | cons u us ih =>
    simp only [List.map_cons, List.nodup_cons] at hn
    unfold lookupUnit
    rcases List.mem_cons.1 hv with e | e
    · subst e
      rw [lookupUnit_eq_none_iff.2 hn.1]; simp
    · rw [ih hn.2 e]

/-- two units of the same name in a list with unique names are equal -/
theorem unit_eq_of_name_eq {us : List (UnitM N)} (hn : (us.map (·.name)).Nodup) {a b : UnitM N}
    (ha : a ∈ us) (hb : b ∈ us) (h : a.name = b.name) : a = b := by
  have h1 := lookupUnit_of_mem hn ha
  have h2 := lookupUnit_of_mem hn hb
  rw [h, h2] at h1
  exact (Option.some.inj h1).symm

/-! ### `labelAll` -/

theorem labelAll_nil (units : List (UnitM N)) (prog : List (Instr N)) (qs : Queues N) (old : Util N) :
    labelAll units prog qs old ([] : List (N × List HI)) = .ok (([] : List (N × List HI)), []) := rfl

/-- unfolding of a successful `labelAll` on a non-empty record -/
theorem labelAll_cons_ok {units : List (UnitM N)} {prog : List (Instr N)} {qs : Queues N} {old : Util N}
    {n : N} {l : List HI} {rest : List (N × List HI)} {r : Util N × List (N × Nat)}
    (h : labelAll units prog qs old ((n, l) :: rest : List (N × List HI)) = .ok r) :
    ∃ r', labelAll units prog qs old rest = .ok r' ∧
      ((l = [] ∧ r = (((n, []) :: r'.1 : List (N × List HI)), r'.2)) ∨
       (l ≠ [] ∧ ∃ unit rl, lookupUnit units n = some unit ∧ labelList prog qs unit (old.get n) l = .ok rl ∧
          r = (((n, rl.1) :: r'.1 : List (N × List HI)), rl.2 ++ r'.2))) := by
  unfold labelAll at h
  by_cases he : l.isEmpty = true
  · simp only [he, if_true] at h
    cases hrec : labelAll units prog qs old rest with
    | error f => simp only [hrec] at h; cases h
    | ok r' =>
      simp only [hrec] at h; cases h
      exact ⟨r', rfl, Or.inl ⟨List.isEmpty_iff.1 he, rfl⟩⟩
  · simp only [he] at h
    have hne : l ≠ [] := fun e => he (List.isEmpty_iff.2 e)
    cases hl : lookupUnit units n with
    | none => simp only [hl] at h; cases h
    | some unit =>
      simp only [hl] at h
      cases hll : labelList prog qs unit (old.get n) l with
      | error f => simp only [hll] at h; cases h
      | ok rl =>
        simp only [hll] at h
        cases hrec : labelAll units prog qs old rest with
        | error f => simp only [hrec] at h; cases h
        | ok r' =>
          simp only [hrec] at h; cases h
          exact ⟨r', rfl, Or.inr ⟨hne, unit, rl, rfl, hll, rfl⟩⟩

/-- relabelling keeps the keys -/
theorem labelAll_keys {units : List (UnitM N)} {prog : List (Instr N)} {qs : Queues N} {old u : Util N}
    {r : Util N × List (N × Nat)} (h : labelAll units prog qs old u = .ok r) : AMap.keys r.1 = AMap.keys u := by
  induction u generalizing r with
  | nil => rw [labelAll_nil] at h; cases h; rfl
  | cons e rest ih =>
    obtain ⟨n, l⟩ := e
    obtain ⟨r', hr', hcase⟩ := labelAll_cons_ok h
    rcases hcase with ⟨_, rfl⟩ | ⟨_, unit, rl, _, _, rfl⟩
    · simp [ih hr']
    · simp [ih hr']

/-- exact content of every unit after relabelling: same instructions in the same order, labels `labelOf` w.r.t. the
unit found by `lookupUnit` and the unit's content in the previous record -/
theorem labelAll_get {units : List (UnitM N)} {prog : List (Instr N)} {qs : Queues N} {old u : Util N}
    {r : Util N × List (N × Nat)} (h : labelAll units prog qs old u = .ok r) (n : N) :
    (u.get n = [] → r.1.get n = []) ∧
    (u.get n ≠ [] → ∃ unit, lookupUnit units n = some unit ∧
      r.1.get n = (u.get n).map (fun x => (⟨x.idx, labelOf prog qs unit (old.get n) x.idx⟩ : HI))) := by
  induction u generalizing r with
  | nil => rw [labelAll_nil] at h; cases h; simp
  | cons e rest ih =>
    obtain ⟨k, l⟩ := e
    obtain ⟨r', hr', hcase⟩ := labelAll_cons_ok h
    have ih' := ih hr'
    rcases hcase with ⟨hl, rfl⟩ | ⟨hl, unit, rl, hlu, hll, rfl⟩
    · subst hl
      simp only [Util.get_cons]
      by_cases hk : k = n
      · simp [hk]
      · simpa [hk] using ih'
    · simp only [Util.get_cons]
      by_cases hk : k = n
      · subst hk
        simp only [if_true]
        exact ⟨fun e => absurd e hl, fun _ => ⟨unit, hlu, (labelList_ok hll).1⟩⟩
      · simpa [hk] using ih'

/-- relabelling keeps, per unit, the hosted program indices in the same order -/
theorem labelAll_get_idx {units : List (UnitM N)} {prog : List (Instr N)} {qs : Queues N} {old u : Util N}
    {r : Util N × List (N × Nat)} (h : labelAll units prog qs old u = .ok r) (n : N) :
    (r.1.get n).map (·.idx) = (u.get n).map (·.idx) := by
  have := labelAll_get h n
  by_cases hn : u.get n = []
  · rw [this.1 hn, hn]
  · obtain ⟨unit, _, e⟩ := this.2 hn
    rw [e, List.map_map]; rfl

theorem labelAll_get_length {units : List (UnitM N)} {prog : List (Instr N)} {qs : Queues N} {old u : Util N}
    {r : Util N × List (N × Nat)} (h : labelAll units prog qs old u = .ok r) (n : N) :
    (r.1.get n).length = (u.get n).length := by
  have := congrArg List.length (labelAll_get_idx h n)
  simpa using this

/-- a hosted instruction is labelled `S` iff it was in the same unit, not `D`, in the previous record -/
theorem labelAll_S_iff {units : List (UnitM N)} {prog : List (Instr N)} {qs : Queues N} {old u : Util N}
    {r : Util N × List (N × Nat)} (h : labelAll units prog qs old u = .ok r) {n : N} {x : HI}
    (hx : x ∈ r.1.get n) : x.st = .S ↔ wasLoaded (old.get n) x.idx = true := by
  have := labelAll_get h n
  by_cases hn : u.get n = []
  · rw [this.1 hn] at hx; cases hx
  · obtain ⟨unit, _, e⟩ := this.2 hn
    rw [e] at hx
    obtain ⟨y, _, rfl⟩ := List.mem_map.1 hx
    exact labelOf_eq_S_iff _ _ _ _ _

/-! ### the cycle -/

variable [LT N] [DecidableRel (α := N) (· < ·)]

omit [DecidableEq N] in
theorem mem_sortedInputs {p : Proc N} {m : UnitM N} : m ∈ sortedInputs p ↔ m ∈ p.inBoundary := mem_isort

omit [DecidableEq N] [LT N] [DecidableRel (α := N) (· < ·)] in
theorem mem_allUnits_of_mem_inBoundary {p : Proc N} {m : UnitM N} (h : m ∈ p.inBoundary) : m ∈ p.allUnits := by
  simp only [Proc.inBoundary, List.mem_append] at h
  simp only [Proc.allUnits, List.mem_append]
  rcases h with h | h
  · exact Or.inl (Or.inl (Or.inr h))
  · exact Or.inl (Or.inl (Or.inl h))

omit [DecidableEq N] [LT N] [DecidableRel (α := N) (· < ·)] in
theorem model_mem_allUnits_of_mem_dests {p : Proc N} {d : FuncU N} (h : d ∈ p.dests) : d.model ∈ p.allUnits := by
  simp only [Proc.dests, List.mem_append] at h
  simp only [Proc.allUnits, List.mem_append, List.mem_map]
  rcases h with h | h
  · exact Or.inl (Or.inr ⟨d, h, rfl⟩)
  · exact Or.inr ⟨d, h, rfl⟩

/-- Invariant principle for the fill phase of a cycle (`fillCycle` = flush, fill the destinations, issue): `P`
holds after the flush with the memory flag clear, is preserved by filling any destination and by any single issue
into a usable input-boundary port. -/
theorem fillCycle_induction (p : Proc N) (prog : List (Instr N)) (P : Util N → Bool → Nat → Prop)
    (old : Util N) (e : Nat)
    (h0 : P (flushOutputs p.outBoundary old) false e)
    (hfill : ∀ d ∈ p.dests, ∀ u mem, P u mem e → P (fillUnit prog d u mem).1 (fillUnit prog d u mem).2 e)
    (hissue : ∀ u mem e' ins port, P u mem e' → prog[e']? = some ins → port ∈ p.inBoundary →
      portUsable ins.cap u mem port →
      P (u.set port.name (u.get port.name ++ [⟨e', .U⟩])) (mem || decide (ins.cap ∈ port.acl)) (e' + 1)) :
    ∃ mem', P (fillCycle p prog old e).1 mem' (fillCycle p prog old e).2 := by
  have h1 := moveFlights_induction p prog (fun u mem => P u mem e) old h0 hfill
  obtain ⟨mem', h2, _⟩ := issueLoop_induction prog (sortedInputs p) P
    (fun u mem e' ins pre port post hP hins hports hu _ =>
      hissue u mem e' ins port hP hins
        (mem_sortedInputs.1 (by rw [hports]; simp)) hu)
    _ _ e h1
  exact ⟨mem', h2⟩

theorem fillCycle_entered_ge (p : Proc N) (prog : List (Instr N)) (old : Util N) (e : Nat) :
    e ≤ (fillCycle p prog old e).2 := issueLoop_entered_ge _ _ _ _ _

theorem fillCycle_entered_le (p : Proc N) (prog : List (Instr N)) (old : Util N) (e : Nat) (h : e ≤ prog.length) :
    (fillCycle p prog old e).2 ≤ prog.length := issueLoop_drop_entered_le _ _ _ _ _ h

/-- `applyClears` works on the queues only: a successful cycle records exactly the relabelled record -/
theorem runCycle_eq_some {p : Proc N} {prog : List (Instr N)} {s s' : SimState N}
    (h : runCycle p prog s = .ok (some s')) :
    ∃ lab qs, labelAll p.allUnits prog s.queues s.util (fillCycle p prog s.util s.entered).1 = .ok lab ∧
      applyClears s.queues lab.2 = .ok qs ∧ Util.beq lab.1 s.util = false ∧
      s' = { util := lab.1, queues := qs, entered := (fillCycle p prog s.util s.entered).2,
             exited := s.exited + countOut p.outBoundary lab.1, table := lab.1 :: s.table } := by
  unfold runCycle at h
  simp only at h
  cases hl : labelAll p.allUnits prog s.queues s.util (fillCycle p prog s.util s.entered).1 with
  | error f => simp only [hl] at h; cases h
  | ok lab =>
    simp only [hl] at h
    cases hc : applyClears s.queues lab.2 with
    | error f => simp only [hc] at h; cases h
    | ok qs =>
      simp only [hc] at h
      cases hb : Util.beq lab.1 s.util with
      | true => simp [hb] at h
      | false =>
        simp only [hb, Bool.false_eq_true, if_false] at h
        injection h with h; injection h with h
        exact ⟨lab, qs, rfl, hc, hb, h.symm⟩

theorem runCycle_eq_none {p : Proc N} {prog : List (Instr N)} {s : SimState N}
    (h : runCycle p prog s = .ok none) :
    ∃ lab qs, labelAll p.allUnits prog s.queues s.util (fillCycle p prog s.util s.entered).1 = .ok lab ∧
      applyClears s.queues lab.2 = .ok qs ∧ Util.beq lab.1 s.util = true := by
  unfold runCycle at h
  simp only at h
  cases hl : labelAll p.allUnits prog s.queues s.util (fillCycle p prog s.util s.entered).1 with
  | error f => simp only [hl] at h; cases h
  | ok lab =>
    simp only [hl] at h
    cases hc : applyClears s.queues lab.2 with
    | error f => simp only [hc] at h; cases h
    | ok qs =>
      simp only [hc] at h
      cases hb : Util.beq lab.1 s.util with
      | true => exact ⟨lab, qs, rfl, hc, hb⟩
      | false => simp [hb] at h

open Spec

/-! ## 3. What `wfProc` gives -/

section wf
omit [LT N] [DecidableRel (α := N) (· < ·)]

theorem wfProc_nodup_names {p : Proc N} (h : wfProc p = true) : (p.allUnits.map (·.name)).Nodup := by
  simp only [wfProc, Bool.and_eq_true, decide_eq_true_eq] at h
  exact h.1.1.1.1

theorem wfProc_caps_nonempty {p : Proc N} (h : wfProc p = true) : ∀ u ∈ p.allUnits, u.caps ≠ [] := by
  simp only [wfProc, Bool.and_eq_true, List.all_eq_true] at h
  intro u hu e
  have := h.1.1.1.2 u hu
  simp [e] at this

theorem wfProc_orderOK {p : Proc N} (h : wfProc p = true) : orderOK p = true := by
  simp only [wfProc, Bool.and_eq_true] at h
  exact h.1.1.2

theorem wfProc_routes {p : Proc N} (h : wfProc p = true) :
    ∀ c ∈ allCaps p, ∀ s ∈ p.inBoundary, c ∈ s.caps → ∀ r ∈ routesFrom p c p.allUnits.length s, routeLocksOK r = true := by
  simp only [wfProc, Bool.and_eq_true, List.all_eq_true] at h
  intro c hc s hs hcs r hr
  exact h.1.2 c hc s (List.mem_filter.2 ⟨hs, by simpa using hcs⟩) r hr

/-- no unit lists a predecessor twice -/
theorem wfProc_preds_nodup {p : Proc N} (h : wfProc p = true) : ∀ d ∈ p.dests, d.preds.Nodup := by
  simp only [wfProc, Bool.and_eq_true, List.all_eq_true, decide_eq_true_eq] at h
  exact h.2

theorem destPos_isSome_of_mem {p : Proc N} {d : FuncU N} (hd : d ∈ p.dests) :
    ∃ k, destPos p d.model.name = some k := by
  cases h : destPos p d.model.name with
  | some k => exact ⟨k, rfl⟩
  | none =>
    unfold destPos at h
    rw [List.findIdx?_eq_none_iff] at h
    have := h d hd
    simp at this

/-- what `orderOK` says about one connection `q → d` -/
theorem orderOK_pred {p : Proc N} (h : orderOK p = true) {d : FuncU N} (hd : d ∈ p.dests) {q : N}
    (hq : q ∈ d.preds) :
    q ∈ p.allUnits.map (·.name) ∧ q ∉ p.outBoundary ∧
      ∀ kq, destPos p q = some kq → ∃ kd, destPos p d.model.name = some kd ∧ kd < kq := by
  simp only [orderOK, List.all_eq_true, Bool.and_eq_true, decide_eq_true_eq, isOutB, Bool.not_eq_true',
    decide_eq_false_iff_not] at h
  obtain ⟨⟨h1, h2⟩, h3⟩ := h d hd q hq
  refine ⟨h1, h2, ?_⟩
  intro kq hkq
  obtain ⟨kd, hkd⟩ := destPos_isSome_of_mem hd
  rw [hkq, hkd] at h3
  exact ⟨kd, hkd, by simpa using h3⟩

/-- a destination is never its own predecessor -/
theorem orderOK_self_not_pred {p : Proc N} (h : orderOK p = true) {d : FuncU N} (hd : d ∈ p.dests) :
    d.model.name ∉ d.preds := by
  intro hq
  obtain ⟨k, hk⟩ := destPos_isSome_of_mem hd
  obtain ⟨kd, hkd, hlt⟩ := (orderOK_pred h hd hq).2.2 k hk
  rw [hk] at hkd; cases hkd; omega

theorem wfProc_self_not_pred {p : Proc N} (h : wfProc p = true) : ∀ d ∈ p.dests, d.model.name ∉ d.preds :=
  fun _ hd => orderOK_self_not_pred (wfProc_orderOK h) hd

end wf

/-! ## 3'. Per-record invariants -/

section rows
omit [LT N] [DecidableRel (α := N) (· < ·)]

/-- Facts about one cycle record that need only unique unit names: `e` bounds the hosted program indices. -/
structure RowBase (p : Proc N) (e : Nat) (u : Util N) : Prop where
  /-- the record has no duplicate key -/
  keys_nodup : (AMap.keys u).Nodup
  /-- only units of the processor host instructions -/
  names : ∀ n, u.get n ≠ [] → n ∈ p.allUnits.map (·.name)
  /-- only issued instructions are hosted -/
  idx_lt : ∀ n x, x ∈ u.get n → x.idx < e
  /-- C04: no unit exceeds its width -/
  width : ∀ m ∈ p.allUnits, (u.get m.name).length ≤ m.width

/-- No program index is hosted twice — neither twice in one unit nor in two units. -/
structure RowND (u : Util N) : Prop where
  nodup_unit : ∀ n, ((u.get n).map (·.idx)).Nodup
  unique_host : ∀ n n' i, i ∈ (u.get n).map (·.idx) → i ∈ (u.get n').map (·.idx) → n = n'

/-- all hosted program indices, unit by unit in the order of `p.allUnits` -/
def hostedIdx (p : Proc N) (u : Util N) : List Nat :=
  (p.allUnits.map (·.name)).flatMap (fun n => (u.get n).map (·.idx))

theorem nodup_flatMap_of {α β : Type} (l : List α) (f : α → List β) (hl : l.Nodup)
    (h1 : ∀ a ∈ l, (f a).Nodup) (h2 : ∀ a ∈ l, ∀ b ∈ l, ∀ x, x ∈ f a → x ∈ f b → a = b) :
    (l.flatMap f).Nodup := by
  induction l with
  | nil => simp
  | cons a l ih =>
    rw [List.nodup_cons] at hl
    rw [List.flatMap_cons, List.nodup_append]
    refine ⟨h1 a List.mem_cons_self, ih hl.2 (fun b hb => h1 b (List.mem_cons_of_mem _ hb))
      (fun b hb c hc => h2 b (List.mem_cons_of_mem _ hb) c (List.mem_cons_of_mem _ hc)), ?_⟩
    intro x hx y hy e
    subst e
    obtain ⟨b, hb, hxb⟩ := List.mem_flatMap.1 hy
    have := h2 a List.mem_cons_self b (List.mem_cons_of_mem _ hb) x hx hxb
    subst this
    exact hl.1 hb

/-- the concatenation of all hosted indices has no duplicate (given unique unit names) -/
theorem RowND.hosted_nodup {p : Proc N} {u : Util N} (h : RowND u) (hn : (p.allUnits.map (·.name)).Nodup) :
    (hostedIdx p u).Nodup :=
  nodup_flatMap_of _ _ hn (fun n _ => h.nodup_unit n) (fun n _ n' _ i hi hi' => h.unique_host n n' i hi hi')

/-- conversely, if all non-empty units are units of `p` -/
theorem RowND.of_hosted_nodup {p : Proc N} {u : Util N} (hnames : ∀ n, u.get n ≠ [] → n ∈ p.allUnits.map (·.name))
    (h : (hostedIdx p u).Nodup) : RowND u := by
  have key : ∀ (l : List N), (l.flatMap (fun n => (u.get n).map (·.idx))).Nodup →
      (∀ n ∈ l, ((u.get n).map (·.idx)).Nodup) ∧
      ∀ n ∈ l, ∀ n' ∈ l, ∀ i, i ∈ (u.get n).map (·.idx) → i ∈ (u.get n').map (·.idx) → n = n' := by
    intro l
    induction l with
    | nil => simp
    | cons a l ih =>
      intro hnd
      rw [List.flatMap_cons, List.nodup_append] at hnd
      obtain ⟨ha, hl, hdisj⟩ := hnd
      obtain ⟨ih1, ih2⟩ := ih hl
      refine ⟨?_, ?_⟩
      · intro n hn
        rcases List.mem_cons.1 hn with e | e
        · subst e; exact ha
        · exact ih1 n e
      · intro n hn n' hn' i hi hi'
        rcases List.mem_cons.1 hn with e | e <;> rcases List.mem_cons.1 hn' with e' | e'
        · rw [e, e']
        · subst e
          exact absurd rfl (hdisj i hi i (List.mem_flatMap.2 ⟨n', e', hi'⟩))
        · subst e'
          exact absurd rfl (hdisj i hi' i (List.mem_flatMap.2 ⟨n, e, hi⟩))
        · exact ih2 n e n' e' i hi hi'
  obtain ⟨k1, k2⟩ := key _ h
  have mem_names : ∀ n i, i ∈ (u.get n).map (·.idx) → n ∈ p.allUnits.map (·.name) := by
    intro n i hi
    apply hnames
    intro e; rw [e] at hi; cases hi
  refine ⟨?_, ?_⟩
  · intro n
    by_cases e : u.get n = []
    · simp [e]
    · exact k1 n (hnames n e)
  · intro n n' i hi hi'
    exact k2 n (mem_names n i hi) n' (mem_names n' i hi') i hi hi'

theorem RowBase.nil (p : Proc N) (e : Nat) : RowBase p e ([] : List (N × List HI)) :=
  ⟨by simp, by simp, by simp, by simp⟩

theorem RowND.nil : RowND ([] : List (N × List HI)) := ⟨by simp, by simp⟩

theorem RowBase.mono {p : Proc N} {e e' : Nat} {u : Util N} (h : RowBase p e u) (he : e ≤ e') : RowBase p e' u :=
  ⟨h.keys_nodup, h.names, fun n x hx => Nat.lt_of_lt_of_le (h.idx_lt n x hx) he, h.width⟩

/-- with duplicate-free keys, the entry-wise reading of `names` (the form used by the C03 checker) -/
theorem RowBase.entry_names {p : Proc N} {e : Nat} {u : Util N} (h : RowBase p e u) {n : N} {l : List HI}
    (hm : (n, l) ∈ AMap.toList u) : l = [] ∨ n ∈ p.allUnits.map (·.name) := by
  by_cases hl : l = []
  · exact Or.inl hl
  · right; apply h.names; rw [Util.get_of_mem h.keys_nodup hm]; exact hl

/-- a record whose units hold sub-lists of another record's units inherits the facts -/
theorem RowBase.of_sublist {p : Proc N} {e : Nat} {u u' : Util N} (h : RowBase p e u)
    (hk : (AMap.keys u').Nodup) (hs : ∀ n, (u'.get n).Sublist (u.get n)) : RowBase p e u' := by
  refine ⟨hk, ?_, ?_, ?_⟩
  · intro n hne
    apply h.names
    intro e0
    have := hs n; rw [e0] at this
    exact hne (List.sublist_nil.1 this)
  · intro n x hx; exact h.idx_lt n x ((hs n).subset hx)
  · intro m hm; exact Nat.le_trans (hs m.name).length_le (h.width m hm)

theorem RowND.of_sublist {u u' : Util N} (h : RowND u) (hs : ∀ n, (u'.get n).Sublist (u.get n)) : RowND u' := by
  refine ⟨?_, ?_⟩
  · intro n; exact ((hs n).map _).nodup (h.nodup_unit n)
  · intro n n' i hi hi'
    exact h.unique_host n n' i (((hs n).map _).subset hi) (((hs n').map _).subset hi')

/-- the facts depend only on the keys and on the per-unit lists of program indices (not on the labels) -/
theorem RowBase.congr {p : Proc N} {e : Nat} {u u' : Util N} (h : RowBase p e u)
    (hk : (AMap.keys u').Nodup) (hs : ∀ n, (u'.get n).map (·.idx) = (u.get n).map (·.idx)) : RowBase p e u' := by
  refine ⟨hk, ?_, ?_, ?_⟩
  · intro n hne
    apply h.names
    intro e0
    have := hs n; rw [e0] at this
    exact hne (by simpa using this)
  · intro n x hx
    have : x.idx ∈ (u.get n).map (·.idx) := by rw [← hs n]; exact List.mem_map.2 ⟨x, hx, rfl⟩
    obtain ⟨y, hy, e1⟩ := List.mem_map.1 this
    rw [← e1]; exact h.idx_lt n y hy
  · intro m hm
    have := congrArg List.length (hs m.name)
    simp only [List.length_map] at this
    rw [this]; exact h.width m hm

theorem RowND.congr {u u' : Util N} (h : RowND u) (hs : ∀ n, (u'.get n).map (·.idx) = (u.get n).map (·.idx)) :
    RowND u' := by
  refine ⟨?_, ?_⟩
  · intro n; rw [hs n]; exact h.nodup_unit n
  · intro n n' i hi hi'; rw [hs n] at hi; rw [hs n'] at hi'; exact h.unique_host n n' i hi hi'

end rows

open Spec

/-! ## 3''. The steps preserve the per-record invariants -/

section steps
omit [LT N] [DecidableRel (α := N) (· < ·)]

theorem RowBase.after_flush {p : Proc N} {e : Nat} {u : Util N} (h : RowBase p e u) (outs : List N) :
    RowBase p e (flushOutputs outs u) :=
  h.of_sublist (flushOutputs_keys_nodup outs h.keys_nodup) (flushOutputs_get_sublist outs u)

theorem RowND.after_flush {u : Util N} (h : RowND u) (outs : List N) : RowND (flushOutputs outs u) :=
  h.of_sublist (flushOutputs_get_sublist outs u)

/-- a taken candidate is hosted by a predecessor in the record the destination is filled from -/
theorem unitTaken_idx_mem {prog : List (Instr N)} {d : FuncU N} {u : Util N} {mem : Bool} {c : N × Nat}
    (h : c ∈ unitTaken prog d u mem) : c.1 ∈ d.preds ∧ c.2 ∈ (u.get c.1).map (·.idx) := by
  obtain ⟨h1, x, hx, _, e⟩ := mem_unitTaken h
  exact ⟨h1, List.mem_map.2 ⟨x, hx, e⟩⟩

theorem RowBase.after_fillUnit {p : Proc N} {e : Nat} {u : Util N} (h : RowBase p e u)
    (hn : (p.allUnits.map (·.name)).Nodup) (prog : List (Instr N)) {d : FuncU N} (hd : d ∈ p.dests) (mem : Bool) :
    RowBase p e (fillUnit prog d u mem).1 := by
  have hdm := model_mem_allUnits_of_mem_dests hd
  refine ⟨fillUnit_keys_nodup prog d mem h.keys_nodup, ?_, ?_, ?_⟩
  · intro n hne
    have hs := fillUnit_get_sublist prog d u mem n
    by_cases hdn : d.model.name = n
    · subst hdn; exact List.mem_map.2 ⟨d.model, hdm, rfl⟩
    · rw [if_neg hdn] at hs
      apply h.names
      intro e0; rw [e0] at hs
      exact hne (List.sublist_nil.1 hs)
  · intro n x hx
    have hs := (fillUnit_get_sublist prog d u mem n).subset hx
    have old : x ∈ u.get n → x.idx < e := h.idx_lt n x
    by_cases hdn : d.model.name = n
    · rw [if_pos hdn, List.mem_append] at hs
      rcases hs with hs | hs
      · exact old hs
      · obtain ⟨c, hc, rfl⟩ := List.mem_map.1 hs
        obtain ⟨_, y, hy, _, e1⟩ := mem_unitTaken hc
        simp only
        rw [← e1]; exact h.idx_lt _ y hy
    · rw [if_neg hdn] at hs; exact old hs
  · intro m hm
    by_cases hdn : d.model.name = m.name
    · have : d.model = m := unit_eq_of_name_eq hn hdm hm hdn
      subst this
      exact fillUnit_length_self prog d u mem (h.width _ hm)
    · have hs := fillUnit_get_sublist prog d u mem m.name
      rw [if_neg hdn] at hs
      exact Nat.le_trans hs.length_le (h.width m hm)

/-- the candidates of a destination carry pairwise different program indices -/
theorem candidates_idx_nodup {u : Util N} (h : RowND u) (prog : List (Instr N)) {d : FuncU N}
    (hpn : d.preds.Nodup) : ((candidates prog d u).map (·.2)).Nodup := by
  refine ((candidates_perm prog d u).map _).nodup_iff.2 ?_
  rw [List.map_flatMap]
  apply nodup_flatMap_of _ _ hpn
  · intro a _
    have : ((candsOf prog d.model u a).map (·.2)) = ((u.get a).filter (validCand prog d.model)).map (·.idx) := by
      simp [candsOf, List.map_map, Function.comp_def]
    rw [this]
    exact (List.filter_sublist.map _).nodup (h.nodup_unit a)
  · intro a _ b _ i hi hi'
    have key : ∀ a, i ∈ (candsOf prog d.model u a).map (·.2) → i ∈ (u.get a).map (·.idx) := by
      intro a hi
      obtain ⟨c, hc, rfl⟩ := List.mem_map.1 hi
      obtain ⟨_, x, hx, _, e⟩ := mem_candsOf.1 hc
      exact List.mem_map.2 ⟨x, hx, e⟩
    exact h.unique_host a b i (key a hi) (key b hi')

theorem unitTaken_idx_nodup {u : Util N} (h : RowND u) (prog : List (Instr N)) {d : FuncU N}
    (hpn : d.preds.Nodup) (mem : Bool) : ((unitTaken prog d u mem).map (·.2)).Nodup :=
  ((unitTaken_sublist prog d u mem).map _).nodup (candidates_idx_nodup h prog hpn)

theorem RowND.after_fillUnit {u : Util N} (h : RowND u) (prog : List (Instr N)) {d : FuncU N}
    (hpn : d.preds.Nodup) (hself : d.model.name ∉ d.preds) (mem : Bool) :
    RowND (fillUnit prog d u mem).1 := by
  have hT := unitTaken_idx_nodup h prog hpn mem
  have hself_get := fillUnit_get_self prog d u mem hself
  -- indices of the destination afterwards
  have hI_self : ((fillUnit prog d u mem).1.get d.model.name).map (·.idx) =
      (u.get d.model.name).map (·.idx) ++ (unitTaken prog d u mem).map (·.2) := by
    rw [hself_get, List.map_append, List.map_map]; rfl
  -- other units: sub-list, and the moved ones are gone
  have hother : ∀ n, d.model.name ≠ n → ((fillUnit prog d u mem).1.get n).Sublist (u.get n) := by
    intro n hne
    have := fillUnit_get_sublist prog d u mem n
    rwa [if_neg hne] at this
  have hgone : ∀ n, d.model.name ≠ n → ∀ c ∈ unitTaken prog d u mem, c.1 = n →
      c.2 ∉ ((fillUnit prog d u mem).1.get n).map (·.idx) := by
    intro n hne c hc e hmem
    rw [fillUnit_get_of_ne prog d u mem hne] at hmem
    obtain ⟨x, hx, e1⟩ := List.mem_map.1 hmem
    have := (List.mem_filter.1 hx).2
    simp only [Bool.not_eq_true', List.any_eq_false, Bool.and_eq_true, beq_iff_eq, not_and] at this
    exact this c hc e e1.symm
  -- a taken index is new in `d` only
  have aux : ∀ n' i, i ∈ (unitTaken prog d u mem).map (·.2) →
      i ∈ ((fillUnit prog d u mem).1.get n').map (·.idx) → d.model.name = n' := by
    intro n' i hi hi'
    by_cases hne : d.model.name = n'
    · exact hne
    · exfalso
      obtain ⟨c, hc, rfl⟩ := List.mem_map.1 hi
      have hold : c.2 ∈ (u.get n').map (·.idx) := ((hother n' hne).map _).subset hi'
      have : c.1 = n' := h.unique_host c.1 n' c.2 (unitTaken_idx_mem hc).2 hold
      exact hgone n' hne c hc this hi'
  have split : ∀ n i, i ∈ ((fillUnit prog d u mem).1.get n).map (·.idx) →
      i ∈ (u.get n).map (·.idx) ∨ (d.model.name = n ∧ i ∈ (unitTaken prog d u mem).map (·.2)) := by
    intro n i hi
    by_cases hne : d.model.name = n
    · subst hne
      rw [hI_self, List.mem_append] at hi
      rcases hi with hi | hi
      · exact Or.inl hi
      · exact Or.inr ⟨rfl, hi⟩
    · exact Or.inl (((hother n hne).map _).subset hi)
  refine ⟨?_, ?_⟩
  · intro n
    by_cases hne : d.model.name = n
    · subst hne
      rw [hI_self, List.nodup_append]
      refine ⟨h.nodup_unit _, hT, ?_⟩
      intro i hi j hj e
      subst e
      obtain ⟨c, hc, rfl⟩ := List.mem_map.1 hj
      have := h.unique_host _ _ _ hi (unitTaken_idx_mem hc).2
      exact hself (this ▸ (unitTaken_idx_mem hc).1)
    · exact ((hother n hne).map _).nodup (h.nodup_unit n)
  · intro n n' i hi hi'
    rcases split n i hi with h1 | ⟨h1, h1'⟩
    · rcases split n' i hi' with h2 | ⟨h2, h2'⟩
      · exact h.unique_host n n' i h1 h2
      · exact (h2.symm.trans (aux n i h2' hi)).symm
    · exact h1.symm.trans (aux n' i h1' hi')

theorem RowBase.after_issue {p : Proc N} {e : Nat} {u : Util N} (h : RowBase p e u)
    (hn : (p.allUnits.map (·.name)).Nodup) {port : UnitM N} (hp : port ∈ p.allUnits)
    (hfree : (u.get port.name).length ≠ port.width) :
    RowBase p (e + 1) (u.set port.name (u.get port.name ++ [⟨e, .U⟩])) := by
  refine ⟨Util.keys_set_nodup _ _ h.keys_nodup, ?_, ?_, ?_⟩
  · intro n hne
    rw [Util.get_set] at hne
    by_cases hpn : port.name = n
    · subst hpn; exact List.mem_map.2 ⟨port, hp, rfl⟩
    · rw [if_neg hpn] at hne; exact h.names n hne
  · intro n x hx
    rw [Util.get_set] at hx
    by_cases hpn : port.name = n
    · rw [if_pos hpn, List.mem_append] at hx
      rcases hx with hx | hx
      · have := h.idx_lt _ x hx; omega
      · simp only [List.mem_singleton] at hx; subst hx; simp
    · rw [if_neg hpn] at hx
      have := h.idx_lt n x hx; omega
  · intro m hm
    rw [Util.get_set]
    by_cases hpn : port.name = m.name
    · have : port = m := unit_eq_of_name_eq hn hp hm hpn
      subst this
      have := h.width _ hm
      simp only [if_true, List.length_append, List.length_singleton]
      omega
    · rw [if_neg hpn]; exact h.width m hm

theorem RowND.after_issue {p : Proc N} {e : Nat} {u : Util N} (h : RowND u) (hb : RowBase p e u) (pn : N) :
    RowND (u.set pn (u.get pn ++ [⟨e, .U⟩])) := by
  have fresh : ∀ n, e ∉ (u.get n).map (·.idx) := by
    intro n hi
    obtain ⟨x, hx, e1⟩ := List.mem_map.1 hi
    have := hb.idx_lt n x hx
    omega
  have split : ∀ n i, i ∈ ((u.set pn (u.get pn ++ [⟨e, .U⟩])).get n).map (·.idx) →
      i ∈ (u.get n).map (·.idx) ∨ (pn = n ∧ i = e) := by
    intro n i hi
    rw [Util.get_set] at hi
    by_cases hpn : pn = n
    · rw [if_pos hpn, List.map_append, List.mem_append] at hi
      rcases hi with hi | hi
      · exact Or.inl (hpn ▸ hi)
      · exact Or.inr ⟨hpn, by simpa using hi⟩
    · rw [if_neg hpn] at hi; exact Or.inl hi
  refine ⟨?_, ?_⟩
  · intro n
    rw [Util.get_set]
    by_cases hpn : pn = n
    · rw [if_pos hpn, List.map_append, List.nodup_append]
      refine ⟨h.nodup_unit _, by simp, ?_⟩
      intro i hi j hj e1
      simp only [List.map_cons, List.map_nil, List.mem_singleton] at hj
      subst e1; subst hj
      exact fresh pn hi
    · rw [if_neg hpn]; exact h.nodup_unit n
  · intro n n' i hi hi'
    rcases split n i hi with h1 | ⟨h1, h1'⟩ <;> rcases split n' i hi' with h2 | ⟨h2, h2'⟩
    · exact h.unique_host n n' i h1 h2
    · subst h2'; exact absurd h1 (fresh n)
    · subst h1'; exact absurd h2 (fresh n')
    · exact h1.symm.trans h2

end steps

/-- The fill phase of a cycle preserves `RowBase` (needs only unique unit names). -/
theorem RowBase.after_fillCycle {p : Proc N} {e : Nat} {u : Util N} (h : RowBase p e u)
    (hn : (p.allUnits.map (·.name)).Nodup) (prog : List (Instr N)) :
    RowBase p (fillCycle p prog u e).2 (fillCycle p prog u e).1 := by
  obtain ⟨_, h'⟩ := fillCycle_induction p prog (fun u' _ e' => RowBase p e' u') u e
    (h.after_flush _)
    (fun d hd u' mem hu' => hu'.after_fillUnit hn prog hd mem)
    (fun u' mem e' ins port hu' _ hport husable =>
      hu'.after_issue hn (mem_allUnits_of_mem_inBoundary hport) husable.2.2)
  exact h'

/-- The fill phase of a cycle preserves "no index hosted twice" (needs duplicate-free predecessor lists and that
no unit is its own predecessor). -/
theorem RowND.after_fillCycle {p : Proc N} {e : Nat} {u : Util N} (h : RowND u) (hb : RowBase p e u)
    (hn : (p.allUnits.map (·.name)).Nodup) (hpn : ∀ d ∈ p.dests, d.preds.Nodup)
    (hself : ∀ d ∈ p.dests, d.model.name ∉ d.preds) (prog : List (Instr N)) :
    RowND (fillCycle p prog u e).1 := by
  obtain ⟨_, h'⟩ := fillCycle_induction p prog (fun u' _ e' => RowBase p e' u' ∧ RowND u') u e
    ⟨hb.after_flush _, h.after_flush _⟩
    (fun d hd u' mem hu' => ⟨hu'.1.after_fillUnit hn prog hd mem, hu'.2.after_fillUnit prog (hpn d hd) (hself d hd) mem⟩)
    (fun u' mem e' ins port hu' _ hport husable =>
      ⟨hu'.1.after_issue hn (mem_allUnits_of_mem_inBoundary hport) husable.2.2, hu'.2.after_issue hu'.1 port.name⟩)
  exact h'.2

/-! ## 3'''. The state invariants -/

/-- The part of the core invariant that needs only unique unit names (enough for C04 and C05). -/
structure BaseInv (p : Proc N) (prog : List (Instr N)) (s : SimState N) : Prop where
  entered_le : s.entered ≤ prog.length
  /-- the last recorded cycle is the head of the table (`[]` before the first cycle) -/
  util_eq : s.util = s.table.head?.getD []
  row : RowBase p s.entered s.util
  rows : ∀ r ∈ s.table, RowBase p s.entered r

/-- The core invariant: `BaseInv` plus "no program index is hosted twice", for the current record and every
recorded cycle. -/
structure CoreInv (p : Proc N) (prog : List (Instr N)) (s : SimState N) : Prop extends BaseInv p prog s where
  nd : RowND s.util
  nds : ∀ r ∈ s.table, RowND r

omit [LT N] [DecidableRel (α := N) (· < ·)] in
theorem BaseInv.init (p : Proc N) (prog : List (Instr N)) : BaseInv p prog (initState prog) :=
  ⟨Nat.zero_le _, rfl, RowBase.nil p 0, by simp [initState]⟩

omit [LT N] [DecidableRel (α := N) (· < ·)] in
theorem CoreInv.init (p : Proc N) (prog : List (Instr N)) : CoreInv p prog (initState prog) :=
  ⟨BaseInv.init p prog, RowND.nil, by simp [initState]⟩

theorem BaseInv.step {p : Proc N} {prog : List (Instr N)} (hn : (p.allUnits.map (·.name)).Nodup)
    {s s' : SimState N} (h : BaseInv p prog s) (hs : runCycle p prog s = .ok (some s')) : BaseInv p prog s' := by
  obtain ⟨lab, qs, hlab, _, _, rfl⟩ := runCycle_eq_some hs
  have hfill := h.row.after_fillCycle hn prog
  have hrow : RowBase p (fillCycle p prog s.util s.entered).2 lab.1 :=
    hfill.congr (by rw [labelAll_keys hlab]; exact hfill.keys_nodup) (labelAll_get_idx hlab)
  refine ⟨fillCycle_entered_le p prog _ _ h.entered_le, rfl, hrow, ?_⟩
  intro r hr
  rcases List.mem_cons.1 hr with e | e
  · subst e; exact hrow
  · exact (h.rows r e).mono (fillCycle_entered_ge p prog _ _)

theorem CoreInv.step {p : Proc N} {prog : List (Instr N)} (hn : (p.allUnits.map (·.name)).Nodup)
    (hpn : ∀ d ∈ p.dests, d.preds.Nodup) (hself : ∀ d ∈ p.dests, d.model.name ∉ d.preds)
    {s s' : SimState N} (h : CoreInv p prog s) (hs : runCycle p prog s = .ok (some s')) : CoreInv p prog s' := by
  have hb := h.toBaseInv.step hn hs
  obtain ⟨lab, qs, hlab, _, _, rfl⟩ := runCycle_eq_some hs
  have hnd : RowND lab.1 := (h.nd.after_fillCycle h.row hn hpn hself prog).congr (labelAll_get_idx hlab)
  refine ⟨hb, hnd, ?_⟩
  intro r hr
  rcases List.mem_cons.1 hr with e | e
  · subst e; exact hnd
  · exact h.nds r e

/-- `CoreInv` is preserved by a cycle of a well-formed processor -/
theorem CoreInv.step_wf {p : Proc N} {prog : List (Instr N)} (hwf : wfProc p = true)
    {s s' : SimState N} (h : CoreInv p prog s) (hs : runCycle p prog s = .ok (some s')) : CoreInv p prog s' :=
  h.step (wfProc_nodup_names hwf) (wfProc_preds_nodup hwf) (wfProc_self_not_pred hwf) hs

open Spec

/-! ## 4. From cycles to diagrams -/

/-- Invariant principle for `simLoop` with arbitrary fuel: a returned or stalled diagram is the (reversed) table of a
state satisfying every invariant of `runCycle`. -/
theorem simLoop_induction {p : Proc N} {prog : List (Instr N)} (Inv : SimState N → Prop)
    (hstep : ∀ s s', Inv s → runCycle p prog s = .ok (some s') → Inv s') :
    ∀ fuel s, Inv s →
      (∀ tbl, simLoop p prog fuel s = .done tbl →
        ∃ s', Inv s' ∧ tbl = s'.table.reverse ∧ s'.finished prog = true) ∧
      (∀ tbl, simLoop p prog fuel s = .stall tbl →
        ∃ s', Inv s' ∧ tbl = s'.table.reverse ∧ s'.finished prog = false ∧ runCycle p prog s' = .ok none) := by
  intro fuel
  induction fuel with
  | zero =>
    intro s hs
    unfold simLoop
    cases hf : s.finished prog with
    | true =>
      refine ⟨fun tbl h => ?_, fun tbl h => ?_⟩
      · simp only [if_true] at h; injection h with h; exact ⟨s, hs, h.symm, hf⟩
      · simp at h
    | false => exact ⟨fun tbl h => by simp at h, fun tbl h => by simp at h⟩
  | succ fuel ih =>
    intro s hs
    unfold simLoop
    cases hf : s.finished prog with
    | true =>
      refine ⟨fun tbl h => ?_, fun tbl h => ?_⟩
      · simp only [if_true] at h; injection h with h; exact ⟨s, hs, h.symm, hf⟩
      · simp at h
    | false =>
      simp only [Bool.false_eq_true, if_false]
      cases hr : runCycle p prog s with
      | error f => exact ⟨fun tbl h => by simp at h, fun tbl h => by simp at h⟩
      | ok o =>
        cases o with
        | none =>
          refine ⟨fun tbl h => by simp at h, fun tbl h => ?_⟩
          simp only at h; injection h with h
          exact ⟨s, hs, h.symm, hf, hr⟩
        | some s' => exact ih s' (hstep s s' hs hr)

/-- **Lifting principle.** Every diagram `simulate` hands out is the reversed table of a state that satisfies any
property `Inv` holding initially and preserved by successful cycles. -/
theorem simulate_induction {p : Proc N} {prog : List (Instr N)} (Inv : SimState N → Prop)
    (h0 : Inv (initState prog))
    (hstep : ∀ s s', Inv s → runCycle p prog s = .ok (some s') → Inv s') :
    ∀ tbl stalled, Diagram p prog tbl stalled →
      ∃ s, Inv s ∧ tbl = s.table.reverse ∧ (stalled = true → runCycle p prog s = .ok none) ∧
        (stalled = false → s.finished prog = true) := by
  intro tbl stalled hd
  have := simLoop_induction (p := p) (prog := prog) Inv hstep (cycleBound p prog) (initState prog) h0
  rcases hd with ⟨hst, hd⟩ | ⟨hst, hd⟩
  · obtain ⟨s, hs, ht, hf⟩ := this.1 tbl hd
    exact ⟨s, hs, ht, fun e => (by rw [hst] at e; cases e), fun _ => hf⟩
  · obtain ⟨s, hs, ht, _, hr⟩ := this.2 tbl hd
    exact ⟨s, hs, ht, fun _ => hr, fun e => (by rw [hst] at e; cases e)⟩

/-! ### adjacent cycles -/

section adj
omit [DecidableEq N] [LT N] [DecidableRel (α := N) (· < ·)]

/-- the record before cycle `t` of a diagram: the empty record for the first cycle -/
def prevRow (tbl : List (Util N)) (t : Nat) : Util N := if t = 0 then ([] : List (N × List HI)) else tbl.getD (t - 1) []

/-- `R prev cur` holds for every recorded cycle of a newest-first table -/
def ChainR (R : Util N → Util N → Prop) : List (Util N) → Prop
  | [] => True
  | r :: rest => R (rest.head?.getD ([] : List (N × List HI))) r ∧ ChainR R rest

theorem getD_mem_or_nil (tbl : List (Util N)) (t : Nat) :
    tbl.getD t ([] : List (N × List HI)) = ([] : List (N × List HI)) ∨ tbl.getD t ([] : List (N × List HI)) ∈ tbl := by
  rw [List.getD_eq_getElem?_getD]
  cases h : tbl[t]? with
  | none => exact Or.inl rfl
  | some r => exact Or.inr (List.mem_of_getElem? h)

theorem ChainR.adjacent {R : Util N → Util N → Prop} {table : List (Util N)} (h : ChainR R table) :
    ∀ t, t < table.length → R (prevRow table.reverse t) (table.reverse.getD t ([] : List (N × List HI))) := by
  induction table with
  | nil => intro t ht; simp at ht
  | cons r rest ih =>
    obtain ⟨h1, h2⟩ := h
    intro t ht
    simp only [List.length_cons] at ht
    simp only [List.reverse_cons, prevRow, List.getD_eq_getElem?_getD]
    by_cases hlt : t < rest.length
    · have e1 : (rest.reverse ++ [r])[t]? = rest.reverse[t]? :=
        List.getElem?_append_left (by simpa using hlt)
      have e2 : (rest.reverse ++ [r])[t - 1]? = rest.reverse[t - 1]? :=
        List.getElem?_append_left (by simp; omega)
      rw [e1, e2]
      have := ih h2 t hlt
      simpa only [prevRow, List.getD_eq_getElem?_getD] using this
    · have ht' : t = rest.length := by omega
      subst ht'
      have e1 : (rest.reverse ++ [r])[rest.length]? = some r := by
        rw [List.getElem?_append_right (by simp)]; simp
      rw [e1]
      cases rest with
      | nil => simpa using h1
      | cons r' rest' =>
        have e2 : ((r' :: rest').reverse ++ [r])[(r' :: rest').length - 1]? = some r' := by
          rw [List.getElem?_append_left (by simp)]
          simp
        rw [e2]
        simpa using h1

end adj

/-- **Adjacent-cycle principle.** If `Inv` is an invariant that implies "`util` is the head of the table", and every
successful cycle relates the previous record to the new one by `R`, then in every diagram `R (row t-1) (row t)` holds
for all recorded cycles (`row (-1)` = the empty record). -/
theorem simulate_adjacent {p : Proc N} {prog : List (Instr N)} (Inv : SimState N → Prop)
    (h0 : Inv (initState prog))
    (hstep : ∀ s s', Inv s → runCycle p prog s = .ok (some s') → Inv s')
    (hutil : ∀ s, Inv s → s.util = s.table.head?.getD ([] : List (N × List HI)))
    (R : Util N → Util N → Prop)
    (hR : ∀ s s', Inv s → runCycle p prog s = .ok (some s') → R s.util s'.util) :
    ∀ tbl stalled, Diagram p prog tbl stalled →
      ∀ t, t < tbl.length → R (prevRow tbl t) (tbl.getD t ([] : List (N × List HI))) := by
  intro tbl stalled hd
  obtain ⟨s, ⟨_, hc⟩, ht, _⟩ := simulate_induction (p := p) (prog := prog)
    (fun s => Inv s ∧ ChainR R s.table) ⟨h0, trivial⟩
    (fun s s' hs hr => by
      refine ⟨hstep s s' hs.1 hr, ?_⟩
      have hRel := hR s s' hs.1 hr
      obtain ⟨lab, qs, _, _, _, rfl⟩ := runCycle_eq_some hr
      exact ⟨by rw [← hutil s hs.1]; exact hRel, hs.2⟩)
    tbl stalled hd
  subst ht
  intro t hlt
  exact hc.adjacent t (by simpa using hlt)

/-! ### the invariants on diagrams -/

theorem Diagram_BaseInv {p : Proc N} {prog : List (Instr N)} (hn : (p.allUnits.map (·.name)).Nodup)
    {tbl : List (Util N)} {stalled : Bool} (h : Diagram p prog tbl stalled) :
    ∃ s, BaseInv p prog s ∧ tbl = s.table.reverse ∧ (stalled = true → runCycle p prog s = .ok none) ∧
      (stalled = false → s.finished prog = true) :=
  simulate_induction (BaseInv p prog) (BaseInv.init p prog) (fun _ _ hs hr => hs.step hn hr) tbl stalled h

theorem Diagram_CoreInv {p : Proc N} {prog : List (Instr N)} (hwf : wfProc p = true)
    {tbl : List (Util N)} {stalled : Bool} (h : Diagram p prog tbl stalled) :
    ∃ s, CoreInv p prog s ∧ tbl = s.table.reverse ∧ (stalled = true → runCycle p prog s = .ok none) ∧
      (stalled = false → s.finished prog = true) :=
  simulate_induction (CoreInv p prog) (CoreInv.init p prog) (fun _ _ hs hr => hs.step_wf hwf hr) tbl stalled h

/-- every row of a diagram (and the empty record beyond its end) satisfies `RowBase`, with one bound
`e ≤ prog.length` on the hosted indices -/
theorem Diagram_rowBase {p : Proc N} {prog : List (Instr N)} (hn : (p.allUnits.map (·.name)).Nodup)
    {tbl : List (Util N)} {stalled : Bool} (h : Diagram p prog tbl stalled) :
    ∃ e, e ≤ prog.length ∧ ∀ t, RowBase p e (tbl.getD t ([] : List (N × List HI))) := by
  obtain ⟨s, hs, rfl, _⟩ := Diagram_BaseInv hn h
  refine ⟨s.entered, hs.entered_le, fun t => ?_⟩
  rcases getD_mem_or_nil s.table.reverse t with e | e
  · rw [e]; exact RowBase.nil p _
  · exact hs.rows _ (List.mem_reverse.1 e)

/-- in every row of a diagram of a well-formed processor no program index is hosted twice -/
theorem Diagram_rowND {p : Proc N} {prog : List (Instr N)} (hwf : wfProc p = true)
    {tbl : List (Util N)} {stalled : Bool} (h : Diagram p prog tbl stalled) :
    ∀ t, RowND (tbl.getD t ([] : List (N × List HI))) := by
  obtain ⟨s, hs, rfl, _⟩ := Diagram_CoreInv hwf h
  intro t
  rcases getD_mem_or_nil s.table.reverse t with e | e
  · rw [e]; exact RowND.nil
  · exact hs.nds _ (List.mem_reverse.1 e)

open Spec

/-! ## 5. Memory-port accounting (C05) -/

section mem
omit [LT N] [DecidableRel (α := N) (· < ·)]

/-- number of instructions in unit `m` of record `new` that are not in unit `m` of record `old` and whose capability
is in `m`'s memory ACL — the *memory entries* into `m` -/
def memNewAt (prog : List (Instr N)) (old new : Util N) (m : UnitM N) : Nat :=
  (((new.get m.name).map (·.idx)).filter
    (fun i => !((old.get m.name).any (fun o => o.idx == i)) && capIn prog i m.acl)).length

/-- memory entries into all units of the list -/
def memNew (prog : List (Instr N)) (units : List (UnitM N)) (old new : Util N) : Nat :=
  (units.map (memNewAt prog old new)).sum

theorem filter_length_le_of_imp {α : Type} (l : List α) (p q : α → Bool) (h : ∀ a, p a = true → q a = true) :
    (l.filter p).length ≤ (l.filter q).length := by
  have : l.filter p = (l.filter q).filter p := by
    rw [List.filter_filter]
    apply List.filter_congr
    intro a _
    cases hp : p a
    · simp
    · simp [h a hp]
  rw [this]
  exact List.filter_sublist.length_le

theorem sum_eq_zero_of_forall (l : List Nat) (h : ∀ k ∈ l, k = 0) : l.sum = 0 := by
  induction l with
  | nil => rfl
  | cons a l ih =>
    rw [List.sum_cons, h a List.mem_cons_self, ih (fun k hk => h k (List.mem_cons_of_mem _ hk))]

theorem memNewAt_congr (prog : List (Instr N)) (old : Util N) {new new' : Util N} (m : UnitM N)
    (h : (new'.get m.name).map (·.idx) = (new.get m.name).map (·.idx)) :
    memNewAt prog old new' m = memNewAt prog old new m := by
  unfold memNewAt; rw [h]

theorem memNew_congr (prog : List (Instr N)) (units : List (UnitM N)) (old : Util N) {new new' : Util N}
    (h : ∀ n, (new'.get n).map (·.idx) = (new.get n).map (·.idx)) :
    memNew prog units old new' = memNew prog units old new := by
  unfold memNew
  congr 1
  apply List.map_congr_left
  intro m _
  exact memNewAt_congr prog old m (h m.name)

/-- appending `app` to a unit (and then dropping anything) adds at most the memory-needing part of `app` -/
theorem memNewAt_le_of_sublist (prog : List (Instr N)) (old : Util N) {new new' : Util N} (m : UnitM N)
    (app : List HI) (h : (new'.get m.name).Sublist (new.get m.name ++ app)) :
    memNewAt prog old new' m ≤
      memNewAt prog old new m + (app.filter (fun x => capIn prog x.idx m.acl)).length := by
  unfold memNewAt
  have h1 := ((h.map (·.idx)).filter
    (fun i => !((old.get m.name).any (fun o => o.idx == i)) && capIn prog i m.acl)).length_le
  rw [List.map_append, List.filter_append, List.length_append] at h1
  refine Nat.le_trans h1 (Nat.add_le_add_left ?_ _)
  have h2 : ((app.map (·.idx)).filter
      (fun i => !((old.get m.name).any (fun o => o.idx == i)) && capIn prog i m.acl)).length ≤
      ((app.map (·.idx)).filter (fun i => capIn prog i m.acl)).length := by
    apply filter_length_le_of_imp
    intro i hi
    simp only [Bool.and_eq_true] at hi
    exact hi.2
  refine Nat.le_trans h2 (Nat.le_of_eq ?_)
  rw [List.filter_map, List.length_map]
  rfl

theorem memNewAt_le_of_sublist' (prog : List (Instr N)) (old : Util N) {new new' : Util N} (m : UnitM N)
    (h : (new'.get m.name).Sublist (new.get m.name)) : memNewAt prog old new' m ≤ memNewAt prog old new m := by
  have := memNewAt_le_of_sublist prog old m [] (by simpa using h)
  simpa using this

/-- instructions that were already in the unit are not entries -/
theorem memNewAt_eq_zero (prog : List (Instr N)) {old new : Util N} (m : UnitM N)
    (h : (new.get m.name).Sublist (old.get m.name)) : memNewAt prog old new m = 0 := by
  unfold memNewAt
  rw [List.length_eq_zero_iff, List.filter_eq_nil_iff]
  intro i hi
  obtain ⟨x, hx, rfl⟩ := List.mem_map.1 hi
  have : (old.get m.name).any (fun o => o.idx == x.idx) = true :=
    List.any_eq_true.2 ⟨x, h.subset hx, by simp⟩
  simp [this]

theorem sum_map_le_add_aux (us : List (UnitM N)) (hn : (us.map (·.name)).Nodup) (f g : UnitM N → Nat) (x : N)
    (k : Nat) (h : ∀ m ∈ us, g m ≤ f m + (if m.name = x then k else 0)) :
    (us.map g).sum ≤ (us.map f).sum + (if x ∈ us.map (·.name) then k else 0) := by
  induction us with
  | nil => simp
  | cons m us ih =>
    simp only [List.map_cons, List.nodup_cons] at hn
    have h1 := h m List.mem_cons_self
    have h2 := ih hn.2 (fun m' hm' => h m' (List.mem_cons_of_mem _ hm'))
    simp only [List.map_cons, List.sum_cons, List.mem_cons]
    by_cases e : m.name = x
    · have hx : x ∉ us.map (·.name) := e ▸ hn.1
      rw [if_pos e] at h1
      rw [if_neg hx] at h2
      rw [if_pos (Or.inl e.symm)]
      omega
    · rw [if_neg e] at h1
      have e' : ¬ x = m.name := fun a => e a.symm
      by_cases hx : x ∈ us.map (·.name)
      · rw [if_pos hx] at h2; rw [if_pos (Or.inr hx)]; omega
      · rw [if_neg hx] at h2; rw [if_neg (by simp only [not_or]; exact ⟨e', hx⟩)]; omega

/-- one step of the fill phase: unit `x` gets `app` appended (and anything may be dropped anywhere); the number of
memory entries grows by at most the memory-needing part of `app`. Needs unique unit names. -/
theorem memNew_step (prog : List (Instr N)) {units : List (UnitM N)} (hn : (units.map (·.name)).Nodup)
    (old : Util N) {u u' : Util N} (x : UnitM N) (hx : x ∈ units) (app : List HI)
    (hother : ∀ n, x.name ≠ n → (u'.get n).Sublist (u.get n))
    (hself : (u'.get x.name).Sublist (u.get x.name ++ app)) :
    memNew prog units old u' ≤ memNew prog units old u + (app.filter (fun h => capIn prog h.idx x.acl)).length := by
  have := sum_map_le_add_aux units hn (memNewAt prog old u) (memNewAt prog old u') x.name
    ((app.filter (fun h => capIn prog h.idx x.acl)).length) (by
      intro m hm
      by_cases e : m.name = x.name
      · have : m = x := unit_eq_of_name_eq hn hm hx e
        subst this
        rw [if_pos rfl]
        exact memNewAt_le_of_sublist prog old m app hself
      · rw [if_neg e]
        exact memNewAt_le_of_sublist' prog old m (hother m.name (fun a => e a.symm)))
  unfold memNew
  refine Nat.le_trans this (Nat.add_le_add_left ?_ _)
  split <;> omega

theorem memNew_flush (prog : List (Instr N)) (units : List (UnitM N)) (outs : List N) (old : Util N) :
    memNew prog units old (flushOutputs outs old) = 0 := by
  unfold memNew
  apply sum_eq_zero_of_forall
  intro k hk
  obtain ⟨m, _, rfl⟩ := List.mem_map.1 hk
  exact memNewAt_eq_zero prog m (flushOutputs_get_sublist outs old m.name)

end mem

/-- **Memory accounting for the fill phase.** With unique unit names, at most one instruction becomes a memory entry
in the fill phase of a cycle (moves and issues together): the threaded flag bounds the count. -/
theorem fillCycle_memNew_le_one {p : Proc N} (hn : (p.allUnits.map (·.name)).Nodup) (prog : List (Instr N))
    (old : Util N) (e : Nat) : memNew prog p.allUnits old (fillCycle p prog old e).1 ≤ 1 := by
  obtain ⟨mem', h⟩ := fillCycle_induction p prog (fun u mem _ => memNew prog p.allUnits old u ≤ mem.toNat) old e
    (by rw [memNew_flush]; exact Nat.zero_le _)
    (by
      intro d hd u mem hu
      have hstep := memNew_step prog hn old (u := u) (u' := (fillUnit prog d u mem).1) d.model
        (model_mem_allUnits_of_mem_dests hd)
        ((unitTaken prog d u mem).map (fun c => (⟨c.2, .U⟩ : HI)))
        (by intro n hne; have := fillUnit_get_sublist prog d u mem n; rwa [if_neg hne] at this)
        (by have := fillUnit_get_sublist prog d u mem d.model.name; rwa [if_pos rfl] at this)
      have hcnt : (((unitTaken prog d u mem).map (fun c => (⟨c.2, .U⟩ : HI))).filter
          (fun h => capIn prog h.idx d.model.acl)).length =
          ((unitTaken prog d u mem).filter (fun c => capIn prog c.2 d.model.acl)).length := by
        rw [List.filter_map, List.length_map]; rfl
      have hmem := fillUnit_mem prog d u mem
      omega)
    (by
      intro u mem e' ins port hu hins hport husable
      have hstep := memNew_step prog hn old (u := u) (u' := u.set port.name (u.get port.name ++ [⟨e', .U⟩])) port
        (mem_allUnits_of_mem_inBoundary hport) [⟨e', .U⟩]
        (by intro n hne; rw [Util.get_set_ne _ _ hne]; exact List.Sublist.refl _)
        (by rw [Util.get_set_eq]; exact List.Sublist.refl _)
      have hcap : capIn prog e' port.acl = decide (ins.cap ∈ port.acl) := by simp [capIn, hins]
      have hcnt : (([⟨e', .U⟩] : List HI).filter (fun h => capIn prog h.idx port.acl)).length =
          (decide (ins.cap ∈ port.acl)).toNat := by
        simp only [List.filter_cons, List.filter_nil, hcap]
        cases decide (ins.cap ∈ port.acl) <;> simp
      have hfree := husable.2.1
      rw [hcnt] at hstep
      revert hstep hu hfree
      cases mem <;> cases decide (ins.cap ∈ port.acl) <;> simp <;> omega)
  have : mem'.toNat ≤ 1 := by cases mem' <;> simp
  omega

/-- **Memory accounting for a cycle**: between the previous record and the new one there is at most one memory
entry. -/
theorem runCycle_memNew_le_one {p : Proc N} (hn : (p.allUnits.map (·.name)).Nodup) {prog : List (Instr N)}
    {s s' : SimState N} (hs : runCycle p prog s = .ok (some s')) :
    memNew prog p.allUnits s.util s'.util ≤ 1 := by
  obtain ⟨lab, qs, hlab, _, _, rfl⟩ := runCycle_eq_some hs
  simp only
  rw [memNew_congr prog p.allUnits s.util (labelAll_get_idx hlab)]
  exact fillCycle_memNew_le_one hn prog s.util s.entered

/-- in every diagram, every recorded cycle has at most one memory entry w.r.t. the cycle before -/
theorem Diagram_memNew_le_one {p : Proc N} (hn : (p.allUnits.map (·.name)).Nodup) {prog : List (Instr N)}
    {tbl : List (Util N)} {stalled : Bool} (h : Diagram p prog tbl stalled) :
    ∀ t, t < tbl.length →
      memNew prog p.allUnits (prevRow tbl t) (tbl.getD t ([] : List (N × List HI))) ≤ 1 :=
  simulate_adjacent (BaseInv p prog) (BaseInv.init p prog) (fun _ _ hs hr => hs.step hn hr)
    (fun _ hs => hs.util_eq) (fun old new => memNew prog p.allUnits old new ≤ 1)
    (fun _ _ _ hr => runCycle_memNew_le_one hn hr) tbl stalled h

open Spec

/-! ## 6. Further per-unit preservation facts -/

section extra
omit [LT N] [DecidableRel (α := N) (· < ·)]

/-- a full unit takes nothing -/
theorem fillTaken_of_full (prog : List (Instr N)) (d : UnitM N) (cs : List (N × Nat)) (len : Nat) (mem : Bool)
    (h : len = d.width) : fillTaken prog d cs len mem = [] := by
  cases cs with
  | nil => rfl
  | cons c cs => unfold fillTaken; rw [if_pos h]

/-- filling `d` leaves every unit alone that is neither `d` nor one of its predecessors -/
theorem fillUnit_get_of_not_involved (prog : List (Instr N)) (d : FuncU N) (u : Util N) (mem : Bool) {n : N}
    (h1 : d.model.name ≠ n) (h2 : n ∉ d.preds) : (fillUnit prog d u mem).1.get n = u.get n := by
  rw [fillUnit_get_of_ne prog d u mem h1]
  apply List.filter_eq_self.2
  intro x _
  simp only [Bool.not_eq_true', List.any_eq_false, Bool.and_eq_true, beq_iff_eq, not_and]
  intro c hc e
  exact absurd (e ▸ (mem_unitTaken hc).1) h2

/-- the moves leave every unit alone that is neither at the output boundary, nor a destination, nor a predecessor -/
theorem moveFlights_get_of_not_involved (p : Proc N) (prog : List (Instr N)) (u : Util N) {n : N}
    (h0 : n ∉ p.outBoundary) (h1 : ∀ d ∈ p.dests, d.model.name ≠ n ∧ n ∉ d.preds) :
    (moveFlights p prog u).1.get n = u.get n := by
  refine moveFlights_induction p prog (fun u' _ => u'.get n = u.get n) u ?_ ?_
  · rw [flushOutputs_get, if_neg h0]
  · intro d hd u' mem hu'
    rw [fillUnit_get_of_not_involved prog d u' mem (h1 d hd).1 (h1 d hd).2, hu']

/-- the issue loop touches input ports only -/
theorem issueLoop_get_of_not_port (ports : List (UnitM N)) (l : List (Instr N)) (u : Util N) (mem : Bool) (e : Nat)
    {n : N} (h : n ∉ ports.map (·.name)) : (issueLoop ports l u mem e).1.get n = u.get n := by
  induction l generalizing u mem e with
  | nil => rfl
  | cons ins rest ih =>
    unfold issueLoop
    cases ht : tryPorts ins.cap e ports u mem with
    | none => rfl
    | some r =>
      obtain ⟨pre, port, post, hp, _, _, rfl⟩ := tryPorts_eq_some ht
      simp only
      rw [ih, Util.get_set_ne]
      intro e1
      exact h (List.mem_map.2 ⟨port, by rw [hp]; simp, e1⟩)

/-- the issue loop only appends, to each unit, unstalled instructions with the indices it issued -/
theorem issueLoop_get_prefix (ports : List (UnitM N)) (l : List (Instr N)) (u : Util N) (mem : Bool) (e : Nat)
    (n : N) :
    ∃ l', (issueLoop ports l u mem e).1.get n = u.get n ++ l' ∧
      ∀ x ∈ l', x.st = .U ∧ e ≤ x.idx ∧ x.idx < (issueLoop ports l u mem e).2 := by
  induction l generalizing u mem e with
  | nil => exact ⟨[], by simp [issueLoop], by simp⟩
  | cons ins rest ih =>
    unfold issueLoop
    cases ht : tryPorts ins.cap e ports u mem with
    | none => exact ⟨[], by simp, by simp⟩
    | some r =>
      obtain ⟨pre, port, post, hp, _, _, rfl⟩ := tryPorts_eq_some ht
      simp only
      obtain ⟨l'', h1, h2⟩ := ih (u.set port.name (u.get port.name ++ [⟨e, .U⟩])) (mem || decide (ins.cap ∈ port.acl)) (e + 1)
      have hge := issueLoop_entered_ge ports rest (u.set port.name (u.get port.name ++ [⟨e, .U⟩]))
        (mem || decide (ins.cap ∈ port.acl)) (e + 1)
      by_cases hpn : port.name = n
      · subst hpn
        refine ⟨⟨e, .U⟩ :: l'', ?_, ?_⟩
        · rw [h1, Util.get_set_eq]; simp
        · intro x hx
          rcases List.mem_cons.1 hx with e1 | e1
          · subst e1; exact ⟨rfl, Nat.le_refl _, by simp only; omega⟩
          · have := h2 x e1; exact ⟨this.1, by omega, this.2.2⟩
      · refine ⟨l'', ?_, ?_⟩
        · rw [h1, Util.get_set_ne _ _ hpn]
        · intro x hx
          have := h2 x hx; exact ⟨this.1, by omega, this.2.2⟩

end extra

omit [LT N] [DecidableRel (α := N) (· < ·)] in
/-- the concatenation of all hosted indices of the current record has no duplicate -/
theorem CoreInv.hosted_nodup {p : Proc N} {prog : List (Instr N)} {s : SimState N} (h : CoreInv p prog s)
    (hn : (p.allUnits.map (·.name)).Nodup) : (hostedIdx p s.util).Nodup := h.nd.hosted_nodup hn

omit [LT N] [DecidableRel (α := N) (· < ·)] in
/-- … and of every recorded cycle -/
theorem CoreInv.hosted_nodup_rows {p : Proc N} {prog : List (Instr N)} {s : SimState N} (h : CoreInv p prog s)
    (hn : (p.allUnits.map (·.name)).Nodup) : ∀ r ∈ s.table, (hostedIdx p r).Nodup :=
  fun r hr => (h.nds r hr).hosted_nodup hn

end ProcSim
