import ProcSim.Lemmas.SimCore
/-!
# Routes: where every instruction comes from and goes to (foundation of C03; used by C01/C02/C16)

1. The processing order: a destination is filled before any of its predecessors is refilled (`dests_order`).
2. The fill phase of a cycle, per hosted instruction: *stayed*, *moved* along a declared connection, or *issued*
   (`FillInv`, `IssueInv`, `fillCycle_issueInv`).
3. The two-row relation `Step` (origin with labels, `vanish`, `hosted`), proved for `runCycle` (`runCycle_step`).
4. Retirement accounting: `exited` never exceeds the number of instructions that are gone or sit unstalled at the
   output boundary (`ExitInv`), hence a finished state hosts only unstalled instructions in output ports.
5. The state invariant `RouteInv` and its lifting to diagrams (`Diagram_route`: entered counters `E t` per row).
6. `Ctx.positions`: characterisation, at most one unit per row, the interval of rows, the chain of adjacent positions
   (`positions_chain`), `visited_walk`, "label `U` at most once per (instruction, unit)".
-/
namespace ProcSim
open Spec

attribute [local implicit_reducible] AMap

variable {N : Type} [DecidableEq N]

/-! ## 0. List helpers (in `namespace Routes`: other lemma files define helpers of the same names) -/

namespace Routes

/-- consecutive elements are related by `R` (Prop version of `Spec.pairsOK`) -/
def Adjacent {α : Type} (R : α → α → Prop) : List α → Prop
  | [] => True
  | [_] => True
  | a :: b :: rest => R a b ∧ Adjacent R (b :: rest)

theorem Adjacent.imp {α : Type} {R S : α → α → Prop} (h : ∀ a b, R a b → S a b) :
    ∀ {l : List α}, Adjacent R l → Adjacent S l
  | [], _ => trivial
  | [_], _ => trivial
  | _ :: b :: rest, ⟨h1, h2⟩ => ⟨h _ _ h1, Adjacent.imp h (l := b :: rest) h2⟩

theorem Adjacent.tail {α : Type} {R : α → α → Prop} {a : α} {l : List α} (h : Adjacent R (a :: l)) :
    Adjacent R l := by
  cases l with
  | nil => trivial
  | cons b rest => exact h.2

/-- a prefix of a chain is a chain -/
theorem Adjacent.of_append_left {α : Type} {R : α → α → Prop} :
    ∀ {l l' : List α}, Adjacent R (l ++ l') → Adjacent R l
  | [], _, _ => trivial
  | [_], _, _ => trivial
  | a :: b :: rest, l', h => by
    have h' : R a b ∧ Adjacent R (b :: (rest ++ l')) := h
    exact ⟨h'.1, Adjacent.of_append_left (l := b :: rest) (l' := l') h'.2⟩

/-- two elements with the same key in a list whose keys are duplicate-free are equal -/
theorem eq_of_key_eq_of_nodup {α β : Type} (f : α → β) {l : List α} (hn : (l.map f).Nodup) {a b : α}
    (ha : a ∈ l) (hb : b ∈ l) (h : f a = f b) : a = b := by
  induction l with
  | nil => cases ha
  | cons c l ih =>
    simp only [List.map_cons, List.nodup_cons] at hn
    rcases List.mem_cons.1 ha with e | e <;> rcases List.mem_cons.1 hb with e' | e'
    · rw [e, e']
    · subst e; exact absurd (List.mem_map.2 ⟨b, e', h.symm⟩) hn.1
    · subst e'; exact absurd (List.mem_map.2 ⟨a, e, h⟩) hn.1
    · exact ih hn.2 e e'

/-- a duplicate-free list contained in another list is not longer -/
theorem length_le_of_nodup_subset {α : Type} [DecidableEq α] {l l' : List α} (hn : l.Nodup) (hs : ∀ a ∈ l, a ∈ l') :
    l.length ≤ l'.length := by
  induction l generalizing l' with
  | nil => simp
  | cons a l ih =>
    rw [List.nodup_cons] at hn
    have ha : a ∈ l' := hs a List.mem_cons_self
    have : l.length ≤ (l'.erase a).length := by
      apply ih hn.2
      intro b hb
      have hne : b ≠ a := fun e => hn.1 (e ▸ hb)
      exact (List.mem_erase_of_ne hne).2 (hs b (List.mem_cons_of_mem _ hb))
    rw [List.length_erase_of_mem ha] at this
    have hpos : 0 < l'.length := List.length_pos_of_mem ha
    simp only [List.length_cons]; omega

/-- … and if it is at least as long, it contains every element of the other list -/
theorem mem_of_nodup_subset_of_length_ge {α : Type} [DecidableEq α] {l l' : List α} (hn : l.Nodup)
    (hs : ∀ a ∈ l, a ∈ l') (hlen : l'.length ≤ l.length) : ∀ b ∈ l', b ∈ l := by
  intro b hb
  by_cases hbl : b ∈ l
  · exact hbl
  · exfalso
    have : l.length ≤ (l'.erase b).length := by
      apply length_le_of_nodup_subset hn
      intro a ha
      have hne : a ≠ b := fun e => hbl (e ▸ ha)
      exact (List.mem_erase_of_ne hne).2 (hs a ha)
    rw [List.length_erase_of_mem hb] at this
    have hpos : 0 < l'.length := List.length_pos_of_mem hb
    omega

/-! ## 1. Structure: names, order of the destinations, `predsOf` -/

section structure_
omit [DecidableEq N]

theorem dests_names_sublist (p : Proc N) :
    (p.dests.map (·.model.name)).Sublist (p.allUnits.map (·.name)) := by
  simp only [Proc.dests, Proc.allUnits, List.map_append, List.map_map, List.append_assoc]
  exact (List.sublist_append_right _ _).trans (List.sublist_append_right _ _)

theorem outBoundary_sublist (p : Proc N) : p.outBoundary.Sublist (p.allUnits.map (·.name)) := by
  simp only [Proc.outBoundary, Proc.allUnits, List.map_append, List.map_map, List.append_assoc]
  refine (List.Sublist.trans ?_ (List.sublist_append_right _ _))
  rw [← List.append_assoc]
  exact List.sublist_append_left _ _

theorem dests_names_nodup {p : Proc N} (hn : (p.allUnits.map (·.name)).Nodup) :
    (p.dests.map (·.model.name)).Nodup := (dests_names_sublist p).nodup hn

theorem outBoundary_nodup {p : Proc N} (hn : (p.allUnits.map (·.name)).Nodup) : p.outBoundary.Nodup :=
  (outBoundary_sublist p).nodup hn

end structure_

/-- with unique names, the stored position of a destination is its position -/
theorem destPos_of_split {p : Proc N} (hn : (p.allUnits.map (·.name)).Nodup) {pre post : List (FuncU N)}
    {d : FuncU N} (h : p.dests = pre ++ d :: post) : destPos p d.model.name = some pre.length := by
  have hnd := dests_names_nodup hn
  rw [h, List.map_append, List.map_cons, List.nodup_append] at hnd
  have hpre : pre.findIdx? (fun d' => decide (d'.model.name = d.model.name)) = none := by
    rw [List.findIdx?_eq_none_iff]
    intro x hx
    simp only [decide_eq_false_iff_not]
    intro e
    exact hnd.2.2 _ (List.mem_map.2 ⟨x, hx, rfl⟩) _ List.mem_cons_self e
  unfold destPos
  rw [h, List.findIdx?_append, hpre, List.findIdx?_cons]
  simp

/-- **Processing order.** When destination `d` is filled, none of its predecessors has been filled yet in this
cycle: the destinations before `d` in the stored order are not predecessors of `d`. -/
theorem dests_order {p : Proc N} (hn : (p.allUnits.map (·.name)).Nodup) (ho : orderOK p = true)
    {pre post : List (FuncU N)} {d : FuncU N} (h : p.dests = pre ++ d :: post) :
    ∀ d' ∈ pre, d'.model.name ∉ d.preds := by
  intro d' hd' hq
  have hd : d ∈ p.dests := by rw [h]; simp
  obtain ⟨pre', post', hsplit⟩ := List.append_of_mem hd'
  have h' : p.dests = pre' ++ d' :: (post' ++ d :: post) := by rw [h, hsplit]; simp
  have hkq := destPos_of_split hn h'
  obtain ⟨kd, hkd, hlt⟩ := (orderOK_pred ho hd hq).2.2 _ hkq
  rw [destPos_of_split hn h] at hkd
  cases hkd
  have : pre.length = pre'.length + (post'.length + 1) := by rw [hsplit]; simp
  omega

/-- with unique names, `predsOf` reads the predecessor list of the destination of that name -/
theorem predsOf_of_mem {p : Proc N} (hn : (p.allUnits.map (·.name)).Nodup) {d : FuncU N} (hd : d ∈ p.dests) :
    predsOf p d.model.name = d.preds := by
  unfold predsOf
  cases hf : p.dests.find? (fun d' => decide (d'.model.name = d.model.name)) with
  | none =>
    rw [List.find?_eq_none] at hf
    have := hf d hd
    simp at this
  | some d' =>
    have h1 := List.mem_of_find?_eq_some hf
    have h2 : d'.model.name = d.model.name := by simpa using List.find?_some hf
    have : d' = d := eq_of_key_eq_of_nodup (fun x : FuncU N => x.model.name) (dests_names_nodup hn) h1 hd h2
    rw [this]

end Routes
open Routes

/-! ## 2. The fill phase, per hosted instruction -/

/-- instruction `i` stayed in unit `n` (at the output boundary only data-stalled instructions stay) -/
def Stayed (p : Proc N) (old : Util N) (n : N) (i : Nat) : Prop :=
  ∃ y ∈ old.get n, y.idx = i ∧ (n ∈ p.outBoundary → y.st = .D)

/-- instruction `i` arrived in unit `n` by a move along a declared connection: it was hosted, not data-stalled, by a
predecessor `q` of `n` in the previous record, and `n` supports its capability -/
def Moved (p : Proc N) (prog : List (Instr N)) (old : Util N) (n : N) (i : Nat) : Prop :=
  ∃ d ∈ p.dests, d.model.name = n ∧ ∃ q ∈ d.preds, ∃ y ∈ old.get q, y.idx = i ∧ y.st ≠ .D ∧
    capIn prog i d.model.caps = true

/-- instruction `i` was issued in this cycle (`e ≤ i < e'`) into the input-boundary port `n`, which supports its
capability -/
def Issued (p : Proc N) (prog : List (Instr N)) (e e' : Nat) (n : N) (i : Nat) : Prop :=
  e ≤ i ∧ i < e' ∧ ∃ port ∈ p.inBoundary, port.name = n ∧ capIn prog i port.caps = true

/-- Invariant of the move phase (`done` = names of the destinations filled so far): units not yet filled hold only
what they held in the previous record (with the same labels); every hosted instruction stayed or moved; an
instruction that the flush does not remove is still hosted somewhere. -/
structure FillInv (p : Proc N) (prog : List (Instr N)) (old : Util N) (done : List N) (u : Util N) : Prop where
  untouched : ∀ n, n ∉ done → ∀ x ∈ u.get n, x ∈ old.get n
  origin : ∀ n x, x ∈ u.get n → Stayed p old n x.idx ∨ Moved p prog old n x.idx
  alive : ∀ n y, y ∈ old.get n → (n ∉ p.outBoundary ∨ y.st = .D) → ∃ n', y.idx ∈ (u.get n').map (·.idx)

theorem FillInv.after_flush (p : Proc N) (prog : List (Instr N)) (old : Util N) :
    FillInv p prog old [] (flushOutputs p.outBoundary old) := by
  refine ⟨?_, ?_, ?_⟩
  · intro n _ x hx
    exact (flushOutputs_get_sublist _ _ _).subset hx
  · intro n x hx
    left
    refine ⟨x, (flushOutputs_get_sublist _ _ _).subset hx, rfl, ?_⟩
    intro hn
    rw [flushOutputs_get, if_pos hn] at hx
    simpa using (List.mem_filter.1 hx).2
  · intro n y hy hcond
    refine ⟨n, List.mem_map.2 ⟨y, ?_, rfl⟩⟩
    rw [flushOutputs_get]
    split
    · next hn =>
      rcases hcond with h | h
      · exact absurd hn h
      · exact List.mem_filter.2 ⟨hy, by simp [h]⟩
    · exact hy

theorem FillInv.after_fillUnit {p : Proc N} {prog : List (Instr N)} {old : Util N} {done done' : List N}
    {u : Util N} (h : FillInv p prog old done u) {d : FuncU N} (hd : d ∈ p.dests)
    (hself : d.model.name ∉ d.preds) (hpreds : ∀ q ∈ d.preds, q ∉ done)
    (hdone : ∀ n, n ∉ done' → n ∉ done ∧ d.model.name ≠ n) (mem : Bool) :
    FillInv p prog old done' (fillUnit prog d u mem).1 := by
  have hsub := fillUnit_get_sublist prog d u mem
  refine ⟨?_, ?_, ?_⟩
  · intro n hn x hx
    obtain ⟨h1, h2⟩ := hdone n hn
    have := (hsub n).subset hx
    rw [if_neg h2] at this
    exact h.untouched n h1 x this
  · intro n x hx
    have hx' := (hsub n).subset hx
    by_cases hdn : d.model.name = n
    · rw [if_pos hdn, List.mem_append] at hx'
      rcases hx' with hx' | hx'
      · exact h.origin n x hx'
      · right
        obtain ⟨c, hc, rfl⟩ := List.mem_map.1 hx'
        obtain ⟨hq, y, hy, hv, he⟩ := mem_unitTaken hc
        have hy' := h.untouched c.1 (hpreds c.1 hq) y hy
        simp only [validCand, Bool.and_eq_true, bne_iff_ne, ne_eq] at hv
        refine ⟨d, hd, hdn, c.1, hq, y, hy', he, hv.1, ?_⟩
        simp only
        rw [← he]; exact hv.2
    · rw [if_neg hdn] at hx'
      exact h.origin n x hx'
  · intro n y hy hcond
    obtain ⟨n', hn'⟩ := h.alive n y hy hcond
    by_cases hdn : d.model.name = n'
    · refine ⟨n', ?_⟩
      rw [← hdn, fillUnit_get_self prog d u mem hself, List.map_append, List.mem_append]
      left; rw [hdn]; exact hn'
    · obtain ⟨x, hx, hxi⟩ := List.mem_map.1 hn'
      by_cases htk : (unitTaken prog d u mem).any (fun m => m.1 == n' && m.2 == x.idx) = true
      · obtain ⟨c, hc, hce⟩ := List.any_eq_true.1 htk
        simp only [Bool.and_eq_true, beq_iff_eq] at hce
        refine ⟨d.model.name, ?_⟩
        rw [fillUnit_get_self prog d u mem hself, List.map_append, List.mem_append]
        right
        rw [List.map_map]
        exact List.mem_map.2 ⟨c, hc, by simp only [Function.comp]; rw [hce.2, hxi]⟩
      · refine ⟨n', List.mem_map.2 ⟨x, ?_, hxi⟩⟩
        rw [fillUnit_get_of_ne prog d u mem hdn]
        have hf := Bool.eq_false_iff.2 htk
        exact List.mem_filter.2 ⟨hx, by simp only [hf, Bool.not_false]⟩

/-- the move phase along the stored order of the destinations (`pre` = the destinations already filled) -/
theorem FillInv.after_fillDests {p : Proc N} {prog : List (Instr N)} {old : Util N}
    (hn : (p.allUnits.map (·.name)).Nodup) (ho : orderOK p = true) :
    ∀ (ds pre : List (FuncU N)) (u : Util N) (mem : Bool), p.dests = pre ++ ds →
      FillInv p prog old (pre.map (·.model.name)) u →
      FillInv p prog old (p.dests.map (·.model.name)) (fillDests prog ds u mem).1
  | [], pre, u, mem, hsplit, h => by
    rw [List.append_nil] at hsplit
    rw [hsplit]; exact h
  | d :: ds, pre, u, mem, hsplit, h => by
    unfold fillDests
    have hd : d ∈ p.dests := by rw [hsplit]; simp
    have h' : FillInv p prog old ((pre ++ [d]).map (·.model.name)) (fillUnit prog d u mem).1 := by
      refine h.after_fillUnit hd (orderOK_self_not_pred ho hd) ?_ ?_ mem
      · intro q hq hmem
        obtain ⟨d', hd', e⟩ := List.mem_map.1 hmem
        exact dests_order hn ho hsplit d' hd' (e ▸ hq)
      · intro n hn'
        simp only [List.map_append, List.map_cons, List.map_nil, List.mem_append, List.mem_singleton,
          not_or] at hn'
        exact ⟨hn'.1, fun e => hn'.2 e.symm⟩
    exact FillInv.after_fillDests hn ho ds (pre ++ [d]) _ _ (by rw [hsplit]; simp) h'

/-- after the moves of a cycle every hosted instruction stayed or moved along a declared connection -/
theorem FillInv.after_moveFlights {p : Proc N} (prog : List (Instr N)) (old : Util N)
    (hn : (p.allUnits.map (·.name)).Nodup) (ho : orderOK p = true) :
    FillInv p prog old (p.dests.map (·.model.name)) (moveFlights p prog old).1 :=
  FillInv.after_fillDests hn ho p.dests [] _ false rfl (FillInv.after_flush p prog old)

/-- Invariant of the issue phase started with `e` entered instructions, now at `e'`. -/
structure IssueInv (p : Proc N) (prog : List (Instr N)) (old : Util N) (e : Nat) (u : Util N) (e' : Nat) :
    Prop where
  le : e ≤ e'
  origin : ∀ n x, x ∈ u.get n → Stayed p old n x.idx ∨ Moved p prog old n x.idx ∨ Issued p prog e e' n x.idx
  alive : ∀ n y, y ∈ old.get n → (n ∉ p.outBoundary ∨ y.st = .D) → ∃ n', y.idx ∈ (u.get n').map (·.idx)
  hosted : ∀ i, e ≤ i → i < e' → ∃ n, i ∈ (u.get n).map (·.idx)

theorem Issued.mono {p : Proc N} {prog : List (Instr N)} {e e' e'' : Nat} {n : N} {i : Nat}
    (h : Issued p prog e e' n i) (hle : e' ≤ e'') : Issued p prog e e'' n i :=
  ⟨h.1, Nat.lt_of_lt_of_le h.2.1 hle, h.2.2⟩

theorem IssueInv.of_fillInv {p : Proc N} {prog : List (Instr N)} {old : Util N} {done : List N} {u : Util N}
    (h : FillInv p prog old done u) (e : Nat) : IssueInv p prog old e u e :=
  ⟨Nat.le_refl _, fun n x hx => (h.origin n x hx).elim Or.inl (fun m => Or.inr (Or.inl m)), h.alive,
    fun i h1 h2 => by omega⟩

theorem IssueInv.after_issue {p : Proc N} {prog : List (Instr N)} {old : Util N} {e e' : Nat} {u : Util N}
    (h : IssueInv p prog old e u e') {ins : Instr N} (hins : prog[e']? = some ins) {port : UnitM N}
    (hport : port ∈ p.inBoundary) (hcap : ins.cap ∈ port.caps) :
    IssueInv p prog old e (u.set port.name (u.get port.name ++ [⟨e', .U⟩])) (e' + 1) := by
  have hle := h.le
  refine ⟨by omega, ?_, ?_, ?_⟩
  · intro n x hx
    rw [Util.get_set] at hx
    have old_case : x ∈ u.get n → Stayed p old n x.idx ∨ Moved p prog old n x.idx ∨ Issued p prog e (e' + 1) n x.idx := by
      intro hx
      rcases h.origin n x hx with a | a | a
      · exact Or.inl a
      · exact Or.inr (Or.inl a)
      · exact Or.inr (Or.inr (a.mono (by omega)))
    by_cases hpn : port.name = n
    · rw [if_pos hpn, List.mem_append] at hx
      rcases hx with hx | hx
      · exact old_case (hpn ▸ hx)
      · simp only [List.mem_singleton] at hx
        subst hx
        refine Or.inr (Or.inr ⟨hle, by simp, port, hport, hpn, ?_⟩)
        simp [capIn, hins, hcap]
    · rw [if_neg hpn] at hx; exact old_case hx
  · intro n y hy hcond
    obtain ⟨n', hn'⟩ := h.alive n y hy hcond
    refine ⟨n', ?_⟩
    rw [Util.get_set]
    split
    · next hpn => rw [List.map_append, List.mem_append]; left; rw [hpn]; exact hn'
    · exact hn'
  · intro i h1 h2
    by_cases hi : i < e'
    · obtain ⟨n, hn'⟩ := h.hosted i h1 hi
      refine ⟨n, ?_⟩
      rw [Util.get_set]
      split
      · next hpn => rw [List.map_append, List.mem_append]; left; rw [hpn]; exact hn'
      · exact hn'
    · have : i = e' := by omega
      subst this
      refine ⟨port.name, ?_⟩
      rw [Util.get_set_eq]; simp

variable [LT N] [DecidableRel (α := N) (· < ·)]

/-- **The fill phase of a cycle.** In the record `F = (fillCycle p prog old e).1` (before relabelling) every hosted
instruction stayed where it was in `old`, or moved along a declared connection from a unit where it was not
data-stalled, or was issued in this cycle into a supporting input-boundary port; what the flush does not remove is
still hosted; every instruction issued in the cycle is hosted. -/
theorem fillCycle_issueInv {p : Proc N} (prog : List (Instr N)) (old : Util N) (e : Nat)
    (hn : (p.allUnits.map (·.name)).Nodup) (ho : orderOK p = true) :
    IssueInv p prog old e (fillCycle p prog old e).1 (fillCycle p prog old e).2 := by
  have h1 := IssueInv.of_fillInv (FillInv.after_moveFlights prog old hn ho) e
  obtain ⟨_, h2, _⟩ := issueLoop_induction prog (sortedInputs p) (fun u _ e' => IssueInv p prog old e u e')
    (fun u mem e' ins pre port post hP hins hports hu _ =>
      hP.after_issue hins (mem_sortedInputs.1 (by rw [hports]; simp)) hu.1)
    _ (moveFlights p prog old).2 e h1
  exact h2

/-! ## 3. The two-row relation -/

omit [LT N] [DecidableRel (α := N) (· < ·)] in
theorem wasLoaded_iff (l : List HI) (i : Nat) : wasLoaded l i = true ↔ ∃ o ∈ l, o.idx = i ∧ o.st ≠ .D := by
  simp [wasLoaded]

/-- **Two-row relation** between a record `old` (with `e` entered instructions) and the next record `new` (`e'`
entered). Every hosted instruction of `new`
* stayed in its unit — then it is labelled `S` iff it was not data-stalled there before, and at the output boundary
  only a data-stalled instruction stays —, or
* is labelled `U`/`D` and either moved along a declared connection (from a unit where it was not `D`, into a unit
  supporting its capability) or was issued in this cycle into a supporting input-boundary port.
An instruction disappears only from the output boundary and only when not data-stalled; every instruction issued in
the cycle is hosted. -/
structure Step (p : Proc N) (prog : List (Instr N)) (e : Nat) (old new : Util N) (e' : Nat) : Prop where
  le : e ≤ e'
  origin : ∀ n x, x ∈ new.get n →
    (∃ y ∈ old.get n, y.idx = x.idx ∧ (n ∈ p.outBoundary → y.st = .D) ∧ (x.st = .S ↔ y.st ≠ .D)) ∨
    (x.st ≠ .S ∧ (Moved p prog old n x.idx ∨ Issued p prog e e' n x.idx))
  vanish : ∀ n y, y ∈ old.get n → (∀ n', y.idx ∉ (new.get n').map (·.idx)) → n ∈ p.outBoundary ∧ y.st ≠ .D
  hosted : ∀ i, e ≤ i → i < e' → ∃ n, i ∈ (new.get n).map (·.idx)

omit [LT N] [DecidableRel (α := N) (· < ·)] in
/-- relabelling the filled record gives the two-row relation -/
theorem Step.of_labelAll {p : Proc N} {prog : List (Instr N)} {old F : Util N} {e e' : Nat}
    (hF : IssueInv p prog old e F e') (hb : RowBase p e old) (hnd : RowND old)
    (hself : ∀ d ∈ p.dests, d.model.name ∉ d.preds) {units : List (UnitM N)} {qs : Queues N}
    {lab : Util N × List (N × Nat)} (hlab : labelAll units prog qs old F = .ok lab) :
    Step p prog e old lab.1 e' := by
  have hidx := labelAll_get_idx hlab
  refine ⟨hF.le, ?_, ?_, ?_⟩
  · intro n x hx
    have hxi : x.idx ∈ (F.get n).map (·.idx) := by rw [← hidx n]; exact List.mem_map.2 ⟨x, hx, rfl⟩
    obtain ⟨x0, hx0, hx0i⟩ := List.mem_map.1 hxi
    have hS := labelAll_S_iff hlab hx
    rw [wasLoaded_iff] at hS
    rcases hF.origin n x0 hx0 with ⟨y, hy, hyi, hout⟩ | hm | hi
    · left
      refine ⟨y, hy, hyi.trans hx0i, hout, ?_⟩
      rw [hS]
      constructor
      · rintro ⟨o, ho, hoi, hod⟩
        have : o = y := eq_of_key_eq_of_nodup (fun h : HI => h.idx) (hnd.nodup_unit n) ho hy
          (hoi.trans (hyi.trans hx0i).symm)
        rw [← this]; exact hod
      · intro h; exact ⟨y, hy, hyi.trans hx0i, h⟩
    · right
      rw [hx0i] at hm
      refine ⟨?_, Or.inl hm⟩
      intro hs
      obtain ⟨o, ho, hoi, _⟩ := hS.1 hs
      obtain ⟨d, hd, hdn, q, hq, y, hy, hyi, _, _⟩ := hm
      have : n = q := hnd.unique_host n q x.idx (List.mem_map.2 ⟨o, ho, hoi⟩) (List.mem_map.2 ⟨y, hy, hyi⟩)
      exact hself d hd (by rw [hdn, this]; exact hq)
    · right
      rw [hx0i] at hi
      refine ⟨?_, Or.inr hi⟩
      intro hs
      obtain ⟨o, ho, hoi, _⟩ := hS.1 hs
      have := hb.idx_lt n o ho
      have := hi.1
      omega
  · intro n y hy hgone
    refine Classical.byContradiction (fun hc => ?_)
    have hcond : n ∉ p.outBoundary ∨ y.st = .D := by
      by_cases h1 : n ∈ p.outBoundary
      · by_cases h2 : y.st = .D
        · exact Or.inr h2
        · exact absurd ⟨h1, h2⟩ hc
      · exact Or.inl h1
    obtain ⟨n', hn'⟩ := hF.alive n y hy hcond
    exact hgone n' (by rw [hidx n']; exact hn')
  · intro i h1 h2
    obtain ⟨n, hn'⟩ := hF.hosted i h1 h2
    exact ⟨n, by rw [hidx n]; exact hn'⟩

/-- **`runCycle` satisfies the two-row relation** (for a state satisfying the core invariant of a well-formed
processor). -/
theorem runCycle_step {p : Proc N} {prog : List (Instr N)} (hwf : wfProc p = true) {s s' : SimState N}
    (h : CoreInv p prog s) (hs : runCycle p prog s = .ok (some s')) :
    Step p prog s.entered s.util s'.util s'.entered := by
  obtain ⟨lab, qs, hlab, _, _, rfl⟩ := runCycle_eq_some hs
  exact Step.of_labelAll (fillCycle_issueInv prog s.util s.entered (wfProc_nodup_names hwf) (wfProc_orderOK hwf))
    h.row h.nd (wfProc_self_not_pred hwf) hlab

section stepfacts
omit [LT N] [DecidableRel (α := N) (· < ·)]

/-- an instruction hosted in the new record was hosted in the old one or has just been issued -/
theorem Step.hosted_old_or_new {p : Proc N} {prog : List (Instr N)} {e e' : Nat} {old new : Util N}
    (h : Step p prog e old new e') {n : N} {i : Nat} (hi : i ∈ (new.get n).map (·.idx)) :
    (∃ n', i ∈ (old.get n').map (·.idx)) ∨ (e ≤ i ∧ i < e') := by
  obtain ⟨x, hx, rfl⟩ := List.mem_map.1 hi
  rcases h.origin n x hx with ⟨y, hy, hyi, _⟩ | ⟨_, hm | hi⟩
  · exact Or.inl ⟨n, List.mem_map.2 ⟨y, hy, hyi⟩⟩
  · obtain ⟨d, _, _, q, _, y, hy, hyi, _⟩ := hm
    exact Or.inl ⟨q, List.mem_map.2 ⟨y, hy, hyi⟩⟩
  · exact Or.inr ⟨hi.1, hi.2.1⟩

/-- gone is gone: an already issued instruction that is not hosted in the old record is not hosted in the new one -/
theorem Step.not_hosted_of_not_hosted {p : Proc N} {prog : List (Instr N)} {e e' : Nat} {old new : Util N}
    (h : Step p prog e old new e') {i : Nat} (hi : i < e) (hold : ∀ n, i ∉ (old.get n).map (·.idx)) :
    ∀ n, i ∉ (new.get n).map (·.idx) := by
  intro n hn
  rcases h.hosted_old_or_new hn with ⟨n', hn'⟩ | ⟨h1, _⟩
  · exact hold n' hn'
  · omega

/-- the flush: a not data-stalled instruction at the output boundary is not hosted in the next record -/
theorem Step.flushed {p : Proc N} {prog : List (Instr N)} {e e' : Nat} {old new : Util N}
    (h : Step p prog e old new e') (hb : RowBase p e old) (hnd : RowND old) (ho : orderOK p = true)
    {n : N} (hn : n ∈ p.outBoundary) {y : HI} (hy : y ∈ old.get n) (hyd : y.st ≠ .D) :
    ∀ n', y.idx ∉ (new.get n').map (·.idx) := by
  intro n' hn'
  obtain ⟨x, hx, hxi⟩ := List.mem_map.1 hn'
  rcases h.origin n' x hx with ⟨y', hy', hyi', hout, _⟩ | ⟨_, hm | hi⟩
  · have e1 : n' = n := hnd.unique_host n' n x.idx (List.mem_map.2 ⟨y', hy', hyi'⟩) (List.mem_map.2 ⟨y, hy, hxi.symm⟩)
    subst e1
    have : y' = y := eq_of_key_eq_of_nodup (fun h : HI => h.idx) (hnd.nodup_unit n') hy' hy (hyi'.trans hxi)
    subst this
    exact hyd (hout hn)
  · obtain ⟨d, hd, _, q, hq, y', hy', hyi', _⟩ := hm
    have e1 : q = n := hnd.unique_host q n x.idx (List.mem_map.2 ⟨y', hy', hyi'⟩) (List.mem_map.2 ⟨y, hy, hxi.symm⟩)
    subst e1
    exact (orderOK_pred ho hd hq).2.1 hn
  · have := hb.idx_lt n y hy
    have := hi.1
    omega

/-- never `S` at the output boundary -/
theorem Step.outB_not_S {p : Proc N} {prog : List (Instr N)} {e e' : Nat} {old new : Util N}
    (h : Step p prog e old new e') {n : N} (hn : n ∈ p.outBoundary) {x : HI} (hx : x ∈ new.get n) : x.st ≠ .S := by
  rcases h.origin n x hx with ⟨y, _, _, hout, hS⟩ | ⟨h1, _⟩
  · intro hs; exact (hS.1 hs) (hout hn)
  · exact h1

/-- an instruction never leaves a unit while data-stalled: it is in the same unit in the next record -/
theorem Step.D_stays {p : Proc N} {prog : List (Instr N)} {e e' : Nat} {old new : Util N}
    (h : Step p prog e old new e') (hb : RowBase p e old) (hnd : RowND old)
    {n : N} {y : HI} (hy : y ∈ old.get n) (hyd : y.st = .D) : y.idx ∈ (new.get n).map (·.idx) := by
  refine Classical.byContradiction (fun hc => ?_)
  by_cases hex : ∃ n', y.idx ∈ (new.get n').map (·.idx)
  · obtain ⟨n', hn'⟩ := hex
    obtain ⟨x, hx, hxi⟩ := List.mem_map.1 hn'
    rcases h.origin n' x hx with ⟨y', hy', hyi', _⟩ | ⟨_, hm | hi⟩
    · have e1 : n' = n := hnd.unique_host n' n x.idx (List.mem_map.2 ⟨y', hy', hyi'⟩) (List.mem_map.2 ⟨y, hy, hxi.symm⟩)
      subst e1
      exact hc hn'
    · obtain ⟨d, hd, _, q, hq, y', hy', hyi', hyd', _⟩ := hm
      have e1 : q = n := hnd.unique_host q n x.idx (List.mem_map.2 ⟨y', hy', hyi'⟩) (List.mem_map.2 ⟨y, hy, hxi.symm⟩)
      subst e1
      have : y' = y := eq_of_key_eq_of_nodup (fun h : HI => h.idx) (hnd.nodup_unit q) hy' hy (hyi'.trans hxi)
      subst this
      exact hyd' hyd
    · have := hb.idx_lt n y hy
      have := hi.1
      omega
  · have := h.vanish n y hy (fun n' hn' => hex ⟨n', hn'⟩)
    exact this.2 hyd

end stepfacts

/-! ## 4. Retirement accounting -/

section accounting
omit [LT N] [DecidableRel (α := N) (· < ·)]

/-- program indices below `e` that are not hosted in `u` (issued and gone) -/
def goneIdx (p : Proc N) (u : Util N) (e : Nat) : List Nat :=
  (List.range e).filter (fun i => decide (i ∉ hostedIdx p u))

/-- program indices sitting unstalled at the output boundary -/
def outUIdx (outs : List N) (u : Util N) : List Nat :=
  outs.flatMap (fun n => ((u.get n).filter (fun h => h.st == .U)).map (·.idx))

theorem countOut_eq_length (outs : List N) (u : Util N) : countOut outs u = (outUIdx outs u).length := by
  unfold countOut outUIdx
  rw [List.length_flatMap]
  congr 1
  apply List.map_congr_left
  intro n _
  rw [List.length_map]

theorem mem_hostedIdx {p : Proc N} {u : Util N} {i : Nat} :
    i ∈ hostedIdx p u ↔ ∃ n ∈ p.allUnits.map (·.name), i ∈ (u.get n).map (·.idx) := by
  unfold hostedIdx; rw [List.mem_flatMap]

theorem RowBase.mem_hostedIdx {p : Proc N} {e : Nat} {u : Util N} (hb : RowBase p e u) {i : Nat} :
    i ∈ hostedIdx p u ↔ ∃ n, i ∈ (u.get n).map (·.idx) := by
  rw [ProcSim.mem_hostedIdx]
  constructor
  · rintro ⟨n, _, h⟩; exact ⟨n, h⟩
  · rintro ⟨n, h⟩
    refine ⟨n, hb.names n ?_, h⟩
    intro e0; rw [e0] at h; cases h

theorem mem_goneIdx {p : Proc N} {e : Nat} {u : Util N} (hb : RowBase p e u) {e0 i : Nat} :
    i ∈ goneIdx p u e0 ↔ i < e0 ∧ ∀ n, i ∉ (u.get n).map (·.idx) := by
  unfold goneIdx
  rw [List.mem_filter, List.mem_range, decide_eq_true_eq, hb.mem_hostedIdx]
  constructor
  · rintro ⟨h1, h2⟩; exact ⟨h1, fun n hn => h2 ⟨n, hn⟩⟩
  · rintro ⟨h1, h2⟩; exact ⟨h1, fun ⟨n, hn⟩ => h2 n hn⟩

theorem mem_outUIdx {outs : List N} {u : Util N} {i : Nat} :
    i ∈ outUIdx outs u ↔ ∃ n ∈ outs, ∃ x ∈ u.get n, x.st = .U ∧ x.idx = i := by
  unfold outUIdx
  rw [List.mem_flatMap]
  constructor
  · rintro ⟨n, hn, h⟩
    obtain ⟨x, hx, hxi⟩ := List.mem_map.1 h
    obtain ⟨hx1, hx2⟩ := List.mem_filter.1 hx
    exact ⟨n, hn, x, hx1, by simpa using hx2, hxi⟩
  · rintro ⟨n, hn, x, hx, hxs, hxi⟩
    exact ⟨n, hn, List.mem_map.2 ⟨x, List.mem_filter.2 ⟨hx, by simp [hxs]⟩, hxi⟩⟩

theorem goneIdx_nodup (p : Proc N) (u : Util N) (e : Nat) : (goneIdx p u e).Nodup :=
  List.filter_sublist.nodup List.nodup_range

theorem outUIdx_nodup {outs : List N} (ho : outs.Nodup) {u : Util N} (hnd : RowND u) : (outUIdx outs u).Nodup := by
  unfold outUIdx
  apply nodup_flatMap_of _ _ ho
  · intro n _
    exact ((List.filter_sublist).map _).nodup (hnd.nodup_unit n)
  · intro n _ n' _ i hi hi'
    exact hnd.unique_host n n' i (((List.filter_sublist).map _).subset hi) (((List.filter_sublist).map _).subset hi')

/-- the gone and the retiring instructions together: duplicate-free, all below the bound -/
theorem gone_outU_nodup {p : Proc N} (hn : (p.allUnits.map (·.name)).Nodup) {e : Nat} {u : Util N}
    (hb : RowBase p e u) (hnd : RowND u) (e0 : Nat) :
    (goneIdx p u e0 ++ outUIdx p.outBoundary u).Nodup := by
  rw [List.nodup_append]
  refine ⟨goneIdx_nodup p u e0, outUIdx_nodup (outBoundary_nodup hn) hnd, ?_⟩
  intro a ha b hb' hab
  subst hab
  obtain ⟨n, _, x, hx, _, hxi⟩ := mem_outUIdx.1 hb'
  exact ((mem_goneIdx hb).1 ha).2 n (List.mem_map.2 ⟨x, hx, hxi⟩)

/-- one cycle: what was gone or retiring before is gone afterwards -/
theorem gone_step {p : Proc N} {prog : List (Instr N)} (hn : (p.allUnits.map (·.name)).Nodup)
    (ho : orderOK p = true) {e e' : Nat} {old new : Util N} (h : Step p prog e old new e')
    (hb : RowBase p e old) (hnd : RowND old) (hb' : RowBase p e' new) :
    (goneIdx p old e).length + countOut p.outBoundary old ≤ (goneIdx p new e').length := by
  rw [countOut_eq_length, ← List.length_append]
  apply length_le_of_nodup_subset (gone_outU_nodup hn hb hnd e)
  intro i hi
  rw [mem_goneIdx hb']
  rcases List.mem_append.1 hi with hi | hi
  · obtain ⟨h1, h2⟩ := (mem_goneIdx hb).1 hi
    exact ⟨Nat.lt_of_lt_of_le h1 h.le, h.not_hosted_of_not_hosted h1 h2⟩
  · obtain ⟨n, hn', x, hx, hxs, hxi⟩ := mem_outUIdx.1 hi
    have hlt := hb.idx_lt n x hx
    have hfl := h.flushed hb hnd ho hn' hx (by rw [hxs]; simp)
    rw [hxi] at hlt hfl
    exact ⟨Nat.lt_of_lt_of_le hlt h.le, hfl⟩

/-- if the retirement counter has reached the number of entered instructions (and is bounded as in `RouteInv`),
everything still hosted sits unstalled at the output boundary -/
theorem all_retiring_of_le {p : Proc N} (hn : (p.allUnits.map (·.name)).Nodup) {e : Nat} {u : Util N}
    (hb : RowBase p e u) (hnd : RowND u) (hle : e ≤ (goneIdx p u e).length + countOut p.outBoundary u) :
    ∀ n x, x ∈ u.get n → n ∈ p.outBoundary ∧ x.st = .U := by
  rw [countOut_eq_length, ← List.length_append] at hle
  have hsub : ∀ a ∈ goneIdx p u e ++ outUIdx p.outBoundary u, a ∈ List.range e := by
    intro a ha
    rw [List.mem_range]
    rcases List.mem_append.1 ha with ha | ha
    · exact ((mem_goneIdx hb).1 ha).1
    · obtain ⟨n, _, x, hx, _, hxi⟩ := mem_outUIdx.1 ha
      rw [← hxi]; exact hb.idx_lt n x hx
  have hall := mem_of_nodup_subset_of_length_ge (gone_outU_nodup hn hb hnd e) hsub (by simpa using hle)
  intro n x hx
  have := hall x.idx (List.mem_range.2 (hb.idx_lt n x hx))
  rcases List.mem_append.1 this with h1 | h1
  · exact absurd (List.mem_map.2 ⟨x, hx, rfl⟩) (((mem_goneIdx hb).1 h1).2 n)
  · obtain ⟨n', hn', x', hx', hxs', hxi'⟩ := mem_outUIdx.1 h1
    have e1 : n' = n := hnd.unique_host n' n x.idx (List.mem_map.2 ⟨x', hx', hxi'⟩) (List.mem_map.2 ⟨x, hx, rfl⟩)
    subst e1
    have : x' = x := eq_of_key_eq_of_nodup (fun h : HI => h.idx) (hnd.nodup_unit n') hx' hx hxi'
    subst this
    exact ⟨hn', hxs'⟩

end accounting

/-! ## 5. The state invariant and its lifting to diagrams -/

section chain
omit [LT N] [DecidableRel (α := N) (· < ·)]

/-- the two-row relation together with the row invariants of both records -/
structure StepB (p : Proc N) (prog : List (Instr N)) (e : Nat) (old new : Util N) (e' : Nat) : Prop
    extends Step p prog e old new e' where
  oldBase : RowBase p e old
  oldND : RowND old
  newBase : RowBase p e' new
  newND : RowND new

/-- `ChainE p prog e' table`: the newest-first `table` was recorded by cycles related by `StepB`, the entered counter
going from `0` to `e'` -/
def ChainE (p : Proc N) (prog : List (Instr N)) : Nat → List (Util N) → Prop
  | e', [] => e' = 0
  | e', r :: rest => ∃ e, StepB p prog e (rest.head?.getD ([] : List (N × List HI))) r e' ∧ ChainE p prog e rest

omit [DecidableEq N] in
theorem head?_getD_eq_reverse_getD (table : List (Util N)) :
    table.head?.getD ([] : List (N × List HI)) =
      table.reverse.getD (table.length - 1) ([] : List (N × List HI)) := by
  cases table with
  | nil => rfl
  | cons r rest =>
    simp only [List.head?_cons, Option.getD_some, List.reverse_cons, List.length_cons, Nat.add_sub_cancel,
      List.getD_eq_getElem?_getD]
    rw [List.getElem?_append_right (by simp)]
    simp

omit [DecidableEq N] in
theorem getD_reverse_cons_lt (r : Util N) (rest : List (Util N)) {t : Nat} (h : t < rest.length) :
    (r :: rest).reverse.getD t ([] : List (N × List HI)) = rest.reverse.getD t ([] : List (N × List HI)) := by
  simp only [List.reverse_cons, List.getD_eq_getElem?_getD]
  rw [List.getElem?_append_left (by simpa using h)]

omit [DecidableEq N] in
theorem getD_reverse_cons_last (r : Util N) (rest : List (Util N)) :
    (r :: rest).reverse.getD rest.length ([] : List (N × List HI)) = r := by
  simp only [List.reverse_cons, List.getD_eq_getElem?_getD]
  rw [List.getElem?_append_right (by simp)]
  simp

omit [DecidableEq N] in
theorem prevRow_reverse_cons_le (r : Util N) (rest : List (Util N)) {t : Nat} (h : t ≤ rest.length) :
    prevRow (r :: rest).reverse t = prevRow rest.reverse t := by
  unfold prevRow
  by_cases h0 : t = 0
  · simp [h0]
  · rw [if_neg h0, if_neg h0]
    exact getD_reverse_cons_lt r rest (by omega)

omit [DecidableEq N] in
theorem prevRow_reverse_cons_last (r : Util N) (rest : List (Util N)) :
    prevRow (r :: rest).reverse rest.length = rest.head?.getD ([] : List (N × List HI)) := by
  rw [prevRow_reverse_cons_le r rest (Nat.le_refl _), head?_getD_eq_reverse_getD]
  unfold prevRow
  cases rest with
  | nil => rfl
  | cons r' rest' => simp

/-- the entered counters as a function of the row number: `E t` instructions had entered before cycle `t` -/
theorem ChainE.toFun {p : Proc N} {prog : List (Instr N)} :
    ∀ {table : List (Util N)} {e' : Nat}, ChainE p prog e' table →
      ∃ E : Nat → Nat, E 0 = 0 ∧ E table.length = e' ∧
        ∀ t, t < table.length →
          StepB p prog (E t) (prevRow table.reverse t) (table.reverse.getD t ([] : List (N × List HI))) (E (t + 1))
  | [], e', h => ⟨fun _ => 0, rfl, by simpa [ChainE] using h.symm, fun t ht => by simp at ht⟩
  | r :: rest, e', h => by
    obtain ⟨e, hstep, hch⟩ := h
    obtain ⟨E0, h0, hlast, hall⟩ := ChainE.toFun hch
    have hE1 : ∀ t, t ≤ rest.length → (fun t => if t ≤ rest.length then E0 t else e') t = E0 t :=
      fun t ht => if_pos ht
    have hE2 : (fun t => if t ≤ rest.length then E0 t else e') (rest.length + 1) = e' := if_neg (by omega)
    refine ⟨fun t => if t ≤ rest.length then E0 t else e', by rw [hE1 0 (Nat.zero_le _)]; exact h0, hE2, ?_⟩
    intro t ht
    simp only [List.length_cons] at ht
    by_cases hlt : t < rest.length
    · rw [hE1 t (by omega), hE1 (t + 1) (by omega), getD_reverse_cons_lt r rest hlt,
        prevRow_reverse_cons_le r rest (by omega)]
      exact hall t hlt
    · have ht' : t = rest.length := by omega
      subst ht'
      rw [hE1 _ (Nat.le_refl _), hE2, hlast, getD_reverse_cons_last, prevRow_reverse_cons_last]
      exact hstep

end chain

/-- **State invariant of the route proofs**: the core invariant, the chain of two-row relations over the recorded
table, and the bound on the retirement counter. -/
structure RouteInv (p : Proc N) (prog : List (Instr N)) (s : SimState N) : Prop extends CoreInv p prog s where
  chain : ChainE p prog s.entered s.table
  exit : s.exited ≤ (goneIdx p s.util s.entered).length + countOut p.outBoundary s.util

omit [LT N] [DecidableRel (α := N) (· < ·)] in
theorem RouteInv.init (p : Proc N) (prog : List (Instr N)) : RouteInv p prog (initState prog) :=
  ⟨CoreInv.init p prog, rfl, Nat.zero_le _⟩

theorem RouteInv.step_wf {p : Proc N} {prog : List (Instr N)} (hwf : wfProc p = true) {s s' : SimState N}
    (h : RouteInv p prog s) (hs : runCycle p prog s = .ok (some s')) : RouteInv p prog s' := by
  have hc := h.toCoreInv.step_wf hwf hs
  have hst := runCycle_step hwf h.toCoreInv hs
  have hg := gone_step (wfProc_nodup_names hwf) (wfProc_orderOK hwf) hst h.row h.nd hc.row
  have hex := h.exit
  obtain ⟨lab, qs, hlab, _, _, rfl⟩ := runCycle_eq_some hs
  refine ⟨hc, ⟨s.entered, ?_, h.chain⟩, ?_⟩
  · rw [← h.util_eq]
    exact ⟨hst, h.row, h.nd, hc.row, hc.nd⟩
  · simp only at hg ⊢
    omega

theorem Diagram_RouteInv {p : Proc N} {prog : List (Instr N)} (hwf : wfProc p = true)
    {tbl : List (Util N)} {stalled : Bool} (h : Diagram p prog tbl stalled) :
    ∃ s, RouteInv p prog s ∧ tbl = s.table.reverse ∧ (stalled = true → runCycle p prog s = .ok none) ∧
      (stalled = false → s.finished prog = true) :=
  simulate_induction (RouteInv p prog) (RouteInv.init p prog) (fun _ _ hs hr => hs.step_wf hwf hr) tbl stalled h

/-- **Routes of a diagram.** There are entered counters `E t` (`E 0 = 0`, non-decreasing, `E T ≤` program length)
such that every recorded cycle `t` is related to the cycle before by `StepB … (E t) … (E (t+1))`; a returned diagram
has `E T =` program length and its last cycle hosts only unstalled instructions in output-boundary ports. -/
theorem Diagram_route {p : Proc N} {prog : List (Instr N)} (hwf : wfProc p = true)
    {tbl : List (Util N)} {stalled : Bool} (h : Diagram p prog tbl stalled) :
    ∃ E : Nat → Nat, E 0 = 0 ∧ E tbl.length ≤ prog.length ∧
      (∀ t, t < tbl.length →
        StepB p prog (E t) (prevRow tbl t) (tbl.getD t ([] : List (N × List HI))) (E (t + 1))) ∧
      (stalled = false → E tbl.length = prog.length ∧
        ∀ n x, x ∈ (tbl.getD (tbl.length - 1) ([] : List (N × List HI))).get n → n ∈ p.outBoundary ∧ x.st = .U) := by
  obtain ⟨s, hs, rfl, _, hfin⟩ := Diagram_RouteInv hwf h
  obtain ⟨E, h0, hlast, hall⟩ := hs.chain.toFun
  refine ⟨E, h0, ?_, ?_, ?_⟩
  · rw [List.length_reverse, hlast]; exact hs.entered_le
  · intro t ht; exact hall t (by simpa using ht)
  · intro hst
    have hf := hfin hst
    simp only [SimState.finished, Bool.not_eq_true', Bool.or_eq_false_iff, decide_eq_false_iff_not,
      Nat.not_lt] at hf
    have hle := hs.entered_le
    refine ⟨by rw [List.length_reverse, hlast]; omega, ?_⟩
    rw [List.length_reverse, ← head?_getD_eq_reverse_getD, ← hs.util_eq]
    exact all_retiring_of_le (wfProc_nodup_names hwf) hs.row hs.nd (by have := hs.exit; omega)

/-! ## 6. `Ctx.positions` -/

section positions
omit [LT N] [DecidableRel (α := N) (· < ·)]

namespace Routes

theorem filter_idx_length_le_one {l : List HI} (hn : (l.map (·.idx)).Nodup) (i : Nat) :
    (l.filter (fun h => h.idx == i)).length ≤ 1 := by
  induction l with
  | nil => simp
  | cons h l ih =>
    simp only [List.map_cons, List.nodup_cons] at hn
    rw [List.filter_cons]
    split
    · next hi =>
      have hi' : h.idx = i := by simpa using hi
      have : l.filter (fun h => h.idx == i) = [] := by
        rw [List.filter_eq_nil_iff]
        intro x hx hxi
        have hxi' : x.idx = i := by simpa using hxi
        exact hn.1 (List.mem_map.2 ⟨x, hx, by rw [hi', hxi']⟩)
      simp [this]
    · exact ih hn.2

theorem flatMap_length_le_one {α β : Type} {l : List α} {f : α → List β} (hl : l.Nodup)
    (h1 : ∀ a ∈ l, (f a).length ≤ 1) (h2 : ∀ a ∈ l, ∀ b ∈ l, f a ≠ [] → f b ≠ [] → a = b) :
    (l.flatMap f).length ≤ 1 := by
  induction l with
  | nil => simp
  | cons a l ih =>
    rw [List.nodup_cons] at hl
    rw [List.flatMap_cons, List.length_append]
    by_cases ha : f a = []
    · rw [ha]
      simpa using ih hl.2 (fun b hb => h1 b (List.mem_cons_of_mem _ hb))
        (fun b hb c hc => h2 b (List.mem_cons_of_mem _ hb) c (List.mem_cons_of_mem _ hc))
    · have : l.flatMap f = [] := by
        rw [List.flatMap_eq_nil_iff]
        intro b hb
        refine Classical.byContradiction (fun hne => ?_)
        have := h2 a List.mem_cons_self b (List.mem_cons_of_mem _ hb) ha hne
        exact hl.1 (this ▸ hb)
      rw [this]; simpa using h1 a List.mem_cons_self

theorem nodup_of_nodup_map {α β : Type} (f : α → β) {l : List α} (h : (l.map f).Nodup) : l.Nodup := by
  induction l with
  | nil => simp
  | cons a l ih =>
    simp only [List.map_cons, List.nodup_cons] at h ⊢
    exact ⟨fun ha => h.1 (List.mem_map.2 ⟨a, ha, rfl⟩), ih h.2⟩

theorem eq_singleton_of_length_le_one {α : Type} {l : List α} (h1 : l.length ≤ 1) (h2 : l ≠ []) : ∃ x, l = [x] := by
  match l, h1, h2 with
  | [], _, h2 => exact absurd rfl h2
  | [x], _, _ => exact ⟨x, rfl⟩
  | _ :: _ :: _, h1, _ => simp at h1

/-- a flat-map of singletons over consecutive numbers is a chain of whatever relates neighbours -/
theorem adjacent_flatMap_range' {α : Type} (g : Nat → List α) (R : α → α → Prop) :
    ∀ (m f : Nat), (∀ t, f ≤ t → t < f + m → ∃ x, g t = [x]) →
      (∀ t a b, f ≤ t → t + 1 < f + m → a ∈ g t → b ∈ g (t + 1) → R a b) →
      Adjacent R ((List.range' f m).flatMap g)
  | 0, f, _, _ => by simp [Adjacent]
  | 1, f, hs, _ => by
    obtain ⟨x, hx⟩ := hs f (Nat.le_refl _) (by omega)
    simp [List.range'_succ, hx, Adjacent]
  | m + 2, f, hs, hr => by
    obtain ⟨a, ha⟩ := hs f (Nat.le_refl _) (by omega)
    obtain ⟨b, hb⟩ := hs (f + 1) (by omega) (by omega)
    have ih := adjacent_flatMap_range' g R (m + 1) (f + 1) (fun t h1 h2 => hs t (by omega) (by omega))
      (fun t a b h1 h2 => hr t a b (by omega) (by omega))
    rw [List.range'_succ, List.flatMap_cons, ha]
    rw [List.range'_succ, List.flatMap_cons, hb] at ih ⊢
    exact ⟨hr f a b (Nat.le_refl _) (by omega) (by rw [ha]; simp) (by rw [hb]; simp), ih⟩

theorem head?_flatMap_range' {α : Type} (g : Nat → List α) (f m : Nat) (hm : 0 < m) (hf : g f ≠ []) :
    ((List.range' f m).flatMap g).head? = (g f).head? := by
  obtain ⟨m', rfl⟩ : ∃ m', m = m' + 1 := ⟨m - 1, by omega⟩
  rw [List.range'_succ, List.flatMap_cons, List.head?_append]
  cases h : g f with
  | nil => exact absurd h hf
  | cons a l => rfl

theorem getLast?_flatMap_range' {α : Type} (g : Nat → List α) (f m : Nat) (hl : g (f + m) ≠ []) :
    ((List.range' f (m + 1)).flatMap g).getLast? = (g (f + m)).getLast? := by
  rw [List.range'_concat, List.flatMap_append, List.getLast?_append]
  simp only [Nat.one_mul, List.flatMap_cons, List.flatMap_nil, List.append_nil]
  cases h : g (f + m) with
  | nil => exact absurd h hl
  | cons a l => rw [List.getLast?_cons]; rfl

theorem exists_bracket (E : Nat → Nat) (i : Nat) : ∀ T, E 0 ≤ i → i < E T → ∃ f, f < T ∧ E f ≤ i ∧ i < E (f + 1)
  | 0, h0, hT => by omega
  | T + 1, h0, hT => by
    by_cases h : i < E T
    · obtain ⟨f, hf, h1, h2⟩ := exists_bracket E i T h0 h
      exact ⟨f, by omega, h1, h2⟩
    · exact ⟨T, by omega, by omega, hT⟩

end Routes

/-- the positions of instruction `i` in cycle `t` (the inner part of `Ctx.positions`) -/
def Spec.Ctx.rowPos (c : Ctx N) (i t : Nat) : List (Nat × UnitM N × Stall) :=
  c.units.flatMap (fun u => ((c.occ t u.name).filter (fun h => h.idx == i)).map (fun h => (t, u, h.st)))

/-- instruction `i` is hosted by some unit in cycle `t` -/
def Spec.Ctx.hostedAt (c : Ctx N) (i t : Nat) : Prop := ∃ n, i ∈ ((c.row t).get n).map (·.idx)

theorem positions_eq_flatMap (c : Ctx N) (i : Nat) : c.positions i = (List.range c.T).flatMap (c.rowPos i) := rfl

theorem mem_rowPos {c : Ctx N} {i t : Nat} {x : Nat × UnitM N × Stall} :
    x ∈ c.rowPos i t ↔ x.1 = t ∧ x.2.1 ∈ c.units ∧ (⟨i, x.2.2⟩ : HI) ∈ c.occ t x.2.1.name := by
  obtain ⟨t', u, l⟩ := x
  simp only [Ctx.rowPos, List.mem_flatMap, List.mem_map, List.mem_filter, beq_iff_eq, Prod.mk.injEq]
  constructor
  · rintro ⟨u', hu', h, ⟨hh, hi⟩, e1, e2, e3⟩
    subst e1 e2 e3
    obtain ⟨hidx, hst⟩ := h
    simp only at hi
    subst hi
    exact ⟨rfl, hu', hh⟩
  · rintro ⟨e1, hu, hh⟩
    subst e1
    exact ⟨u, hu, ⟨i, l⟩, ⟨hh, rfl⟩, rfl, rfl, rfl⟩

/-- **Positions, characterised**: `(t, u, l)` is a position of `i` iff `t` is a recorded cycle, `u` a unit of the
processor, and `u` hosts `i` with label `l` in cycle `t` -/
theorem mem_positions {c : Ctx N} {i : Nat} {x : Nat × UnitM N × Stall} :
    x ∈ c.positions i ↔ x.1 < c.T ∧ x.2.1 ∈ c.units ∧ (⟨i, x.2.2⟩ : HI) ∈ c.occ x.1 x.2.1.name := by
  rw [positions_eq_flatMap, List.mem_flatMap]
  constructor
  · rintro ⟨t, ht, hx⟩
    obtain ⟨e1, h2, h3⟩ := mem_rowPos.1 hx
    rw [e1]; exact ⟨List.mem_range.1 ht, h2, h3⟩
  · rintro ⟨h1, h2, h3⟩
    exact ⟨x.1, List.mem_range.2 h1, mem_rowPos.2 ⟨rfl, h2, h3⟩⟩

/-- **One unit per row**: in a row where no index is hosted twice, an instruction has at most one position -/
theorem rowPos_length_le_one {c : Ctx N} (hn : (c.units.map (·.name)).Nodup) {t : Nat} (hnd : RowND (c.row t))
    (i : Nat) : (c.rowPos i t).length ≤ 1 := by
  unfold Ctx.rowPos
  apply flatMap_length_le_one (nodup_of_nodup_map _ hn)
  · intro u _
    rw [List.length_map]
    exact filter_idx_length_le_one (hnd.nodup_unit u.name) i
  · intro a ha b hb h1 h2
    have key : ∀ u : UnitM N, ((c.occ t u.name).filter (fun h => h.idx == i)).map (fun h => (t, u, h.st)) ≠ [] →
        i ∈ ((c.row t).get u.name).map (·.idx) := by
      intro u hne
      obtain ⟨x, hx⟩ := List.exists_mem_of_ne_nil _ hne
      obtain ⟨h, hh, _⟩ := List.mem_map.1 hx
      obtain ⟨hh1, hh2⟩ := List.mem_filter.1 hh
      exact List.mem_map.2 ⟨h, hh1, by simpa using hh2⟩
    exact unit_eq_of_name_eq hn ha hb (hnd.unique_host _ _ i (key a h1) (key b h2))

theorem rowPos_ne_nil_iff {c : Ctx N} {e i t : Nat} (hb : RowBase c.p e (c.row t)) :
    c.rowPos i t ≠ [] ↔ c.hostedAt i t := by
  constructor
  · intro hne
    obtain ⟨x, hx⟩ := List.exists_mem_of_ne_nil _ hne
    obtain ⟨_, _, h3⟩ := mem_rowPos.1 hx
    exact ⟨x.2.1.name, List.mem_map.2 ⟨_, h3, rfl⟩⟩
  · rintro ⟨n, hn⟩
    obtain ⟨h, hh, hi⟩ := List.mem_map.1 hn
    have hne : (c.row t).get n ≠ [] := by intro e0; rw [e0] at hh; cases hh
    obtain ⟨u, hu, hun⟩ := List.mem_map.1 (hb.names n hne)
    have : (t, u, h.st) ∈ c.rowPos i t := by
      refine mem_rowPos.2 ⟨rfl, hu, ?_⟩
      show (⟨i, h.st⟩ : HI) ∈ (c.row t).get u.name
      rw [hun, ← hi]; exact hh
    intro e0; rw [e0] at this; cases this

theorem rowPos_eq_nil_of_not_hosted {c : Ctx N} {e i t : Nat} (hb : RowBase c.p e (c.row t))
    (h : ¬ c.hostedAt i t) : c.rowPos i t = [] :=
  Classical.byContradiction (fun hne => h ((rowPos_ne_nil_iff hb).1 hne))

/-- What `Diagram_route` provides, as a hypothesis on a context (so that the list-level arguments do not depend on
`simulate`). -/
structure Routed (c : Ctx N) (E : Nat → Nat) : Prop where
  names : (c.p.allUnits.map (·.name)).Nodup
  order : orderOK c.p = true
  zero : E 0 = 0
  le_n : E c.T ≤ c.n
  step : ∀ t, t < c.T → StepB c.p c.prog (E t) (prevRow c.tbl t) (c.row t) (E (t + 1))
  done : c.stalled = false → E c.T = c.n ∧
    ∀ n x, x ∈ (c.row (c.T - 1)).get n → n ∈ c.p.outBoundary ∧ x.st = .U

namespace Routed
variable {c : Ctx N} {E : Nat → Nat}

omit [DecidableEq N] in
theorem prevRow_succ (c : Ctx N) (t : Nat) : prevRow c.tbl (t + 1) = c.row t := by
  simp [prevRow, Ctx.row]

theorem mono (h : Routed c E) : ∀ {t t' : Nat}, t ≤ t' → t' ≤ c.T → E t ≤ E t' := by
  intro t t' h1 h2
  induction t' with
  | zero => have : t = 0 := by omega
            rw [this]; exact Nat.le_refl _
  | succ k ih =>
    by_cases hk : t = k + 1
    · rw [hk]; exact Nat.le_refl _
    · have := (h.step k (by omega)).le
      have := ih (by omega) (by omega)
      omega

theorem hosted_lt (h : Routed c E) {i t : Nat} (ht : t < c.T) (hh : c.hostedAt i t) : i < E (t + 1) := by
  obtain ⟨n, hn⟩ := hh
  obtain ⟨x, hx, rfl⟩ := List.mem_map.1 hn
  exact (h.step t ht).newBase.idx_lt n x hx

theorem hosted_of_issued (h : Routed c E) {i t : Nat} (ht : t < c.T) (h1 : E t ≤ i) (h2 : i < E (t + 1)) :
    c.hostedAt i t := (h.step t ht).hosted i h1 h2

theorem hosted_prev_or_issued (h : Routed c E) {i t : Nat} (ht : t < c.T) (hh : c.hostedAt i t) :
    (0 < t ∧ c.hostedAt i (t - 1)) ∨ (E t ≤ i ∧ i < E (t + 1)) := by
  obtain ⟨n, hn⟩ := hh
  rcases (h.step t ht).hosted_old_or_new hn with ⟨n', hn'⟩ | h2
  · left
    cases t with
    | zero => simp [prevRow] at hn'
    | succ k =>
      rw [prevRow_succ] at hn'
      exact ⟨by omega, n', by simpa using hn'⟩
  · exact Or.inr h2

theorem not_hosted_succ (h : Routed c E) {i t : Nat} (ht : t + 1 < c.T) (hi : i < E (t + 1))
    (hh : ¬ c.hostedAt i t) : ¬ c.hostedAt i (t + 1) := by
  intro hh'
  rcases h.hosted_prev_or_issued ht hh' with ⟨_, h2⟩ | ⟨h2, _⟩
  · exact hh (by simpa using h2)
  · omega

/-- **The rows hosting an issued instruction form one interval** `[f, f + m)`, `f` being the cycle of issue. -/
theorem interval (h : Routed c E) {i : Nat} (hi : i < E c.T) :
    ∃ f m, 0 < m ∧ f + m ≤ c.T ∧ E f ≤ i ∧ i < E (f + 1) ∧
      ∀ t, t < c.T → (c.hostedAt i t ↔ f ≤ t ∧ t < f + m) := by
  obtain ⟨f, hfT, hf1, hf2⟩ := exists_bracket E i c.T (by rw [h.zero]; exact Nat.zero_le _) hi
  have hbefore : ∀ t, t < f → ¬ c.hostedAt i t := by
    intro t ht hh
    have := h.hosted_lt (by omega) hh
    have := h.mono (t := t + 1) (t' := f) (by omega) (by omega)
    omega
  have key : ∀ T', f < T' → T' ≤ c.T →
      ∃ m, 0 < m ∧ f + m ≤ T' ∧ ∀ t, f ≤ t → t < T' → (c.hostedAt i t ↔ t < f + m) := by
    intro T'
    induction T' with
    | zero => intro h0; omega
    | succ T' ih =>
      intro h1 h2
      by_cases hfT' : f = T'
      · subst hfT'
        refine ⟨1, by omega, by omega, ?_⟩
        intro t ht1 ht2
        have : t = f := by omega
        subst this
        exact ⟨fun _ => by omega, fun _ => h.hosted_of_issued hfT hf1 hf2⟩
      · obtain ⟨m, hm0, hm1, hm2⟩ := ih (by omega) (by omega)
        by_cases hh : c.hostedAt i T'
        · have hfm : f + m = T' := by
            refine Classical.byContradiction (fun hne => ?_)
            have hnot : ¬ c.hostedAt i (T' - 1) := by
              intro hh'
              have := (hm2 (T' - 1) (by omega) (by omega)).1 hh'
              omega
            have hlt : i < E (T' - 1 + 1) := by
              have := h.mono (t := f + 1) (t' := T' - 1 + 1) (by omega) (by omega)
              omega
            have := h.not_hosted_succ (t := T' - 1) (by omega) hlt hnot
            rw [show T' - 1 + 1 = T' by omega] at this
            exact this hh
          refine ⟨m + 1, by omega, by omega, ?_⟩
          intro t ht1 ht2
          by_cases htT : t = T'
          · subst htT; exact ⟨fun _ => by omega, fun _ => hh⟩
          · have := hm2 t ht1 (by omega)
            constructor
            · intro a; have := this.1 a; omega
            · intro _; exact this.2 (by omega)
        · refine ⟨m, hm0, by omega, ?_⟩
          intro t ht1 ht2
          by_cases htT : t = T'
          · subst htT; exact ⟨fun a => absurd a hh, fun _ => by omega⟩
          · exact hm2 t ht1 (by omega)
  obtain ⟨m, hm0, hm1, hm2⟩ := key c.T hfT (Nat.le_refl _)
  refine ⟨f, m, hm0, hm1, hf1, hf2, ?_⟩
  intro t ht
  by_cases htf : t < f
  · exact ⟨fun a => absurd a (hbefore t htf), fun a => by omega⟩
  · have := hm2 t (by omega) ht
    exact ⟨fun a => ⟨by omega, this.1 a⟩, fun a => this.2 a.2⟩

theorem rowBase (h : Routed c E) {t : Nat} (ht : t < c.T) : RowBase c.p (E (t + 1)) (c.row t) :=
  (h.step t ht).newBase

theorem rowND (h : Routed c E) {t : Nat} (ht : t < c.T) : RowND (c.row t) := (h.step t ht).newND

/-- the positions of an issued instruction are the positions in the rows of its interval -/
theorem positions_eq_interval (h : Routed c E) {i f m : Nat} (hfm : f + m ≤ c.T)
    (hiff : ∀ t, t < c.T → (c.hostedAt i t ↔ f ≤ t ∧ t < f + m)) :
    c.positions i = (List.range' f m).flatMap (c.rowPos i) := by
  have hsplit : List.range c.T = List.range' 0 f ++ (List.range' f m ++ List.range' (f + m) (c.T - (f + m))) := by
    rw [List.range_eq_range']
    have e1 : List.range' f m ++ List.range' (f + m) (c.T - (f + m)) = List.range' f (m + (c.T - (f + m))) := by
      have := @List.range'_append f m (c.T - (f + m)) 1
      simp only [Nat.one_mul] at this
      exact this
    have e2 : List.range' 0 f ++ List.range' f (m + (c.T - (f + m))) = List.range' 0 (f + (m + (c.T - (f + m)))) := by
      have := @List.range'_append 0 f (m + (c.T - (f + m))) 1
      simpa using this
    rw [e1, e2]
    congr 1; omega
  have hnil : ∀ l : List Nat, (∀ t ∈ l, t < c.T ∧ ¬ (f ≤ t ∧ t < f + m)) → l.flatMap (c.rowPos i) = [] := by
    intro l hl
    rw [List.flatMap_eq_nil_iff]
    intro t ht
    obtain ⟨h1, h2⟩ := hl t ht
    exact rowPos_eq_nil_of_not_hosted (h.rowBase h1) (fun a => h2 ((hiff t h1).1 a))
  have h1 := hnil (List.range' 0 f) (by
    intro t ht
    obtain ⟨k, hk, rfl⟩ := List.mem_range'.1 ht
    constructor <;> omega)
  have h2 := hnil (List.range' (f + m) (c.T - (f + m))) (by
    intro t ht
    obtain ⟨k, hk, rfl⟩ := List.mem_range'.1 ht
    constructor <;> omega)
  rw [positions_eq_flatMap, hsplit, List.flatMap_append, List.flatMap_append, h1, h2]
  simp

theorem rowPos_singleton (h : Routed c E) {i t : Nat} (ht : t < c.T) (hh : c.hostedAt i t) :
    ∃ x, c.rowPos i t = [x] :=
  eq_singleton_of_length_le_one (rowPos_length_le_one h.names (h.rowND ht) i)
    ((rowPos_ne_nil_iff (h.rowBase ht)).2 hh)

end Routed

/-- how two positions of instruction `i` in consecutive cycles are related: same unit (then `S` iff it was not
data-stalled), or a move along a declared connection out of a unit where it was not data-stalled into a unit that
supports its capability, arriving with `U` or `D` -/
def PosStep (p : Proc N) (prog : List (Instr N)) (i : Nat) (a b : Nat × UnitM N × Stall) : Prop :=
  (a.2.1 = b.2.1 ∧ (b.2.2 = .S ↔ a.2.2 ≠ .D)) ∨
  (a.2.1.name ≠ b.2.1.name ∧ a.2.1.name ∈ predsOf p b.2.1.name ∧ a.2.2 ≠ .D ∧ b.2.2 ≠ .S ∧
    capIn prog i b.2.1.caps = true)

namespace Routed
variable {c : Ctx N} {E : Nat → Nat}

theorem hosted_of_mem_positions {i : Nat} {x : Nat × UnitM N × Stall} (hx : x ∈ c.positions i) :
    c.hostedAt i x.1 :=
  ⟨x.2.1.name, List.mem_map.2 ⟨_, (mem_positions.1 hx).2.2, rfl⟩⟩

/-- two positions of `i` in consecutive cycles -/
theorem pos_step (h : Routed c E) {i : Nat} {a b : Nat × UnitM N × Stall} (ha : a ∈ c.positions i)
    (hb : b ∈ c.positions i) (hab : b.1 = a.1 + 1) : PosStep c.p c.prog i a b := by
  obtain ⟨ta, ua, la⟩ := a
  obtain ⟨tb, ub, lb⟩ := b
  simp only at hab
  subst hab
  obtain ⟨ha1, ha2, ha3⟩ := mem_positions.1 ha
  obtain ⟨hb1, hb2, hb3⟩ := mem_positions.1 hb
  simp only at ha1 ha2 ha3 hb1 hb2 hb3
  have st := h.step (ta + 1) hb1
  rw [prevRow_succ] at st
  have hia : i ∈ ((c.row ta).get ua.name).map (·.idx) := List.mem_map.2 ⟨_, ha3, rfl⟩
  have same : ∀ n (y : HI), y ∈ (c.row ta).get n → y.idx = i → n = ua.name ∧ y = ⟨i, la⟩ := by
    intro n y hy hyi
    have e1 : n = ua.name := st.oldND.unique_host n ua.name i (List.mem_map.2 ⟨y, hy, hyi⟩) hia
    subst e1
    exact ⟨rfl, eq_of_key_eq_of_nodup (fun h : HI => h.idx) (st.oldND.nodup_unit _) hy ha3 hyi⟩
  unfold PosStep
  simp only
  rcases st.origin ub.name ⟨i, lb⟩ hb3 with ⟨y, hy, hyi, _, hS⟩ | ⟨hnS, hm | his⟩
  · obtain ⟨e1, e2⟩ := same _ y hy hyi
    left
    refine ⟨(unit_eq_of_name_eq h.names hb2 ha2 e1).symm, ?_⟩
    rw [e2] at hS; exact hS
  · obtain ⟨d, hd, hdn, q, hq, y, hy, hyi, hyd, hcap⟩ := hm
    obtain ⟨e1, e2⟩ := same _ y hy hyi
    right
    have hdm : d.model = ub :=
      unit_eq_of_name_eq h.names (model_mem_allUnits_of_mem_dests hd) hb2 hdn
    refine ⟨?_, ?_, ?_, hnS, ?_⟩
    · intro e3
      exact orderOK_self_not_pred h.order hd (by rw [hdn, ← e3, ← e1]; exact hq)
    · rw [← hdn, predsOf_of_mem h.names hd, ← e1]; exact hq
    · rw [e2] at hyd; exact hyd
    · rw [← hdm]; exact hcap
  · exfalso
    have := st.oldBase.idx_lt _ _ ha3
    have := his.1
    simp only at *
    omega

/-- a position whose instruction is not hosted in the cycle before: the instruction has just been issued -/
theorem pos_first (h : Routed c E) {i : Nat} {x : Nat × UnitM N × Stall} (hx : x ∈ c.positions i)
    (hprev : x.1 = 0 ∨ ¬ c.hostedAt i (x.1 - 1)) :
    x.2.1 ∈ c.p.inBoundary ∧ x.2.2 ≠ .S ∧ capIn c.prog i x.2.1.caps = true ∧ E x.1 ≤ i ∧ i < E (x.1 + 1) := by
  obtain ⟨t, u, l⟩ := x
  obtain ⟨h1, h2, h3⟩ := mem_positions.1 hx
  simp only at h1 h2 h3 hprev ⊢
  have st := h.step t h1
  have noprev : ∀ n (y : HI), y ∈ (prevRow c.tbl t).get n → y.idx = i → False := by
    intro n y hy hyi
    cases t with
    | zero => simp [prevRow] at hy
    | succ k =>
      rw [prevRow_succ] at hy
      rcases hprev with hp | hp
      · omega
      · exact hp ⟨n, List.mem_map.2 ⟨y, by simpa using hy, hyi⟩⟩
  rcases st.origin u.name ⟨i, l⟩ h3 with ⟨y, hy, hyi, _⟩ | ⟨hnS, hm | his⟩
  · exact (noprev _ y hy hyi).elim
  · obtain ⟨d, _, _, q, _, y, hy, hyi, _⟩ := hm
    exact (noprev _ y hy hyi).elim
  · obtain ⟨h4, h5, port, hport, hpn, hcap⟩ := his
    have : port = u := unit_eq_of_name_eq h.names (mem_allUnits_of_mem_inBoundary hport) h2 hpn
    subst this
    exact ⟨hport, hnS, hcap, h4, h5⟩

/-- a position whose instruction is not hosted in the next recorded cycle: it left through the output boundary,
unstalled -/
theorem pos_gone (h : Routed c E) {i : Nat} {x : Nat × UnitM N × Stall} (hx : x ∈ c.positions i)
    (hT : x.1 + 1 < c.T) (hnext : ¬ c.hostedAt i (x.1 + 1)) : x.2.1.name ∈ c.p.outBoundary ∧ x.2.2 = .U := by
  obtain ⟨t, u, l⟩ := x
  obtain ⟨h1, h2, h3⟩ := mem_positions.1 hx
  simp only at h1 h2 h3 hT hnext ⊢
  have st := h.step (t + 1) hT
  rw [prevRow_succ] at st
  obtain ⟨ho, hd⟩ := st.vanish u.name ⟨i, l⟩ h3 (fun n' hn' => hnext ⟨n', hn'⟩)
  have hs := (h.step t h1).outB_not_S ho h3
  simp only at hd hs
  refine ⟨ho, ?_⟩
  cases l <;> simp_all

/-- a position in the last cycle of a returned diagram -/
theorem pos_final (h : Routed c E) (hst : c.stalled = false) {i : Nat} {x : Nat × UnitM N × Stall}
    (hx : x ∈ c.positions i) (hT : x.1 + 1 = c.T) : x.2.1.name ∈ c.p.outBoundary ∧ x.2.2 = .U := by
  obtain ⟨_, _, h3⟩ := mem_positions.1 hx
  have h3' : (⟨i, x.2.2⟩ : HI) ∈ (c.row x.1).get x.2.1.name := h3
  exact (h.done hst).2 x.2.1.name ⟨i, x.2.2⟩ (by rw [← hT]; simpa using h3')

end Routed

/-- **The route of an instruction**, as a property of its list of positions `l`: non-empty; consecutive cycles related
by `PosStep`; starts with `U`/`D` in a supporting input-boundary port in its cycle of issue; ends unstalled in an
output-boundary port unless it is still in flight in the last cycle of a stall diagram. -/
structure RouteOf (c : Ctx N) (E : Nat → Nat) (i : Nat) (l : List (Nat × UnitM N × Stall)) : Prop where
  ne : l ≠ []
  chain : Adjacent (fun a b => b.1 = a.1 + 1 ∧ PosStep c.p c.prog i a b) l
  first : ∀ x, l.head? = some x →
    x.2.1 ∈ c.p.inBoundary ∧ x.2.2 ≠ .S ∧ capIn c.prog i x.2.1.caps = true ∧ E x.1 ≤ i ∧ i < E (x.1 + 1)
  last : ∀ x, l.getLast? = some x →
    (c.stalled = true ∧ x.1 + 1 = c.T) ∨ (x.2.1.name ∈ c.p.outBoundary ∧ x.2.2 = .U)
  mem : ∀ x ∈ l, x.1 < c.T ∧ x.2.1 ∈ c.p.allUnits

/-- **Every issued instruction has a route** (`positions_chain`). -/
theorem Routed.routeOf {c : Ctx N} {E : Nat → Nat} (h : Routed c E) {i : Nat} (hi : i < E c.T) :
    RouteOf c E i (c.positions i) := by
  obtain ⟨f, m, hm0, hfm, hf1, hf2, hiff⟩ := h.interval hi
  have hpos := h.positions_eq_interval hfm hiff
  have hsing : ∀ t, f ≤ t → t < f + m → ∃ x, c.rowPos i t = [x] :=
    fun t h1 h2 => h.rowPos_singleton (by omega) ((hiff t (by omega)).2 ⟨h1, h2⟩)
  have hmem : ∀ t, t < c.T → ∀ x ∈ c.rowPos i t, x ∈ c.positions i ∧ x.1 = t := by
    intro t ht x hx
    obtain ⟨e1, h2, h3⟩ := mem_rowPos.1 hx
    exact ⟨mem_positions.2 ⟨by rw [e1]; exact ht, h2, by rw [e1]; exact h3⟩, e1⟩
  refine ⟨?_, ?_, ?_, ?_, ?_⟩
  · obtain ⟨x, hx⟩ := hsing f (Nat.le_refl _) (by omega)
    intro e0
    have := (hmem f (by omega) x (by rw [hx]; simp)).1
    rw [e0] at this; cases this
  · rw [hpos]
    apply adjacent_flatMap_range' _ _ m f hsing
    intro t a b h1 h2 ha hb
    obtain ⟨ha1, ha2⟩ := hmem t (by omega) a ha
    obtain ⟨hb1, hb2⟩ := hmem (t + 1) (by omega) b hb
    have hab : b.1 = a.1 + 1 := by rw [ha2, hb2]
    exact ⟨hab, h.pos_step ha1 hb1 hab⟩
  · intro x hx
    obtain ⟨x0, hx0⟩ := hsing f (Nat.le_refl _) (by omega)
    rw [hpos, head?_flatMap_range' _ f m hm0 (by rw [hx0]; simp), hx0] at hx
    simp only [List.head?_cons, Option.some.injEq] at hx
    subst hx
    obtain ⟨h1, h2⟩ := hmem f (by omega) x0 (by rw [hx0]; simp)
    refine h.pos_first h1 ?_
    rw [h2]
    by_cases hf0 : f = 0
    · exact Or.inl hf0
    · right
      intro hh
      have := (hiff (f - 1) (by omega)).1 hh
      omega
  · intro x hx
    obtain ⟨m', rfl⟩ : ∃ m', m = m' + 1 := ⟨m - 1, by omega⟩
    obtain ⟨x0, hx0⟩ := hsing (f + m') (by omega) (by omega)
    rw [hpos, getLast?_flatMap_range' _ f m' (by rw [hx0]; simp), hx0] at hx
    simp only [List.getLast?_singleton, Option.some.injEq] at hx
    subst hx
    obtain ⟨h1, h2⟩ := hmem (f + m') (by omega) x0 (by rw [hx0]; simp)
    by_cases hT : x0.1 + 1 = c.T
    · cases hst : c.stalled with
      | true => exact Or.inl ⟨rfl, hT⟩
      | false => exact Or.inr (h.pos_final hst h1 hT)
    · right
      refine h.pos_gone h1 (by omega) ?_
      intro hh
      have := (hiff (x0.1 + 1) (by omega)).1 hh
      omega
  · intro x hx
    obtain ⟨h1, h2, _⟩ := mem_positions.1 hx
    exact ⟨h1, h2⟩

/-- instructions that have not entered have no position -/
theorem Routed.positions_eq_nil {c : Ctx N} {E : Nat → Nat} (h : Routed c E) {i : Nat} (hi : E c.T ≤ i) :
    c.positions i = [] := by
  rw [positions_eq_flatMap, List.flatMap_eq_nil_iff]
  intro t ht
  have ht' := List.mem_range.1 ht
  apply rowPos_eq_nil_of_not_hosted (h.rowBase ht')
  intro hh
  have := h.hosted_lt ht' hh
  have := h.mono (t := t + 1) (t' := c.T) (by omega) (Nat.le_refl _)
  omega

end positions

end ProcSim
