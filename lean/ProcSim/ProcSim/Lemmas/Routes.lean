import ProcSim.Lemmas.RoutesCore
/-!
# Routes: the route of every instruction through a diagram (foundation of C03)

Continues `Lemmas/RoutesCore.lean` (1. processing order, 2. the fill phase per hosted instruction — `FillInv`,
`IssueInv`, `fillCycle_issueInv` —, 3. the two-row relation `Step`, `runCycle_step`).

4. Retirement accounting: `exited` never exceeds the number of instructions that are gone or sit unstalled at the
   output boundary, hence a finished state hosts only unstalled instructions in output ports.
5. The state invariant `RouteInv` and its lifting to diagrams (`Diagram_route`: entered counters `E t` per row).
6. `Ctx.positions`: characterisation (`mem_positions`), at most one unit per row (`rowPos_length_le_one`), the
   interval of rows (`Routed.interval`), the route (`RouteOf`, `Routed.routeOf`).
7. From the route to the checker's list predicates (`consec`, `pairsOK`, `stays`/`stayOK`).
8. Exports for the hazard proofs: `visited_walk`, no unit is visited twice, label `U` at most once per unit.
-/
namespace ProcSim
open Spec
open Routes

attribute [local implicit_reducible] AMap

variable {N : Type} [DecidableEq N] [LT N] [DecidableRel (α := N) (· < ·)]

/-! ## 4. Retirement accounting -/

section accounting
omit [LT N] [DecidableRel (α := N) (· < ·)]

/-- program indices below `e` that are not hosted in `u` (issued and gone) -/
def goneIdx (p : Proc N) (u : Util N) (e : Nat) : List Nat :=
  (List.range e).filter (fun i => decide (i ∉ hostedIdx p u))

/-- program indices sitting unstalled at the output boundary -/
def outUIdx (outs : List N) (u : Util N) : List Nat :=
  outs.flatMap (fun n => ((u.get n).filter (fun h => h.st == .U)).map (·.idx))

theorem countOut_eq_length (outs : List N) (u : Util N) : countOut outs u = (outUIdx outs u).length := by
  unfold countOut outUIdx
  rw [List.length_flatMap]
  congr 1
  apply List.map_congr_left
  intro n _
  rw [List.length_map]

theorem mem_hostedIdx {p : Proc N} {u : Util N} {i : Nat} :
    i ∈ hostedIdx p u ↔ ∃ n ∈ p.allUnits.map (·.name), i ∈ (u.get n).map (·.idx) := by
  unfold hostedIdx; rw [List.mem_flatMap]

theorem RowBase.mem_hostedIdx {p : Proc N} {e : Nat} {u : Util N} (hb : RowBase p e u) {i : Nat} :
    i ∈ hostedIdx p u ↔ ∃ n, i ∈ (u.get n).map (·.idx) := by
  rw [ProcSim.mem_hostedIdx]
  constructor
  · rintro ⟨n, _, h⟩; exact ⟨n, h⟩
  · rintro ⟨n, h⟩
    refine ⟨n, hb.names n ?_, h⟩
    intro e0; rw [e0] at h; cases h

theorem mem_goneIdx {p : Proc N} {e : Nat} {u : Util N} (hb : RowBase p e u) {e0 i : Nat} :
    i ∈ goneIdx p u e0 ↔ i < e0 ∧ ∀ n, i ∉ (u.get n).map (·.idx) := by
  unfold goneIdx
  rw [List.mem_filter, List.mem_range, decide_eq_true_eq, hb.mem_hostedIdx]
  constructor
  · rintro ⟨h1, h2⟩; exact ⟨h1, fun n hn => h2 ⟨n, hn⟩⟩
  · rintro ⟨h1, h2⟩; exact ⟨h1, fun ⟨n, hn⟩ => h2 n hn⟩

theorem mem_outUIdx {outs : List N} {u : Util N} {i : Nat} :
    i ∈ outUIdx outs u ↔ ∃ n ∈ outs, ∃ x ∈ u.get n, x.st = .U ∧ x.idx = i := by
  unfold outUIdx
  rw [List.mem_flatMap]
  constructor
  · rintro ⟨n, hn, h⟩
    obtain ⟨x, hx, hxi⟩ := List.mem_map.1 h
    obtain ⟨hx1, hx2⟩ := List.mem_filter.1 hx
    exact ⟨n, hn, x, hx1, by simpa using hx2, hxi⟩
  · rintro ⟨n, hn, x, hx, hxs, hxi⟩
    exact ⟨n, hn, List.mem_map.2 ⟨x, List.mem_filter.2 ⟨hx, by simp [hxs]⟩, hxi⟩⟩

theorem goneIdx_nodup (p : Proc N) (u : Util N) (e : Nat) : (goneIdx p u e).Nodup :=
  List.filter_sublist.nodup List.nodup_range

theorem outUIdx_nodup {outs : List N} (ho : outs.Nodup) {u : Util N} (hnd : RowND u) : (outUIdx outs u).Nodup := by
  unfold outUIdx
  apply nodup_flatMap_of _ _ ho
  · intro n _
    exact ((List.filter_sublist).map _).nodup (hnd.nodup_unit n)
  · intro n _ n' _ i hi hi'
    exact hnd.unique_host n n' i (((List.filter_sublist).map _).subset hi) (((List.filter_sublist).map _).subset hi')

/-- the gone and the retiring instructions together: duplicate-free, all below the bound -/
theorem gone_outU_nodup {p : Proc N} (hn : (p.allUnits.map (·.name)).Nodup) {e : Nat} {u : Util N}
    (hb : RowBase p e u) (hnd : RowND u) (e0 : Nat) :
    (goneIdx p u e0 ++ outUIdx p.outBoundary u).Nodup := by
  rw [List.nodup_append]
  refine ⟨goneIdx_nodup p u e0, outUIdx_nodup (outBoundary_nodup hn) hnd, ?_⟩
  intro a ha b hb' hab
  subst hab
  obtain ⟨n, _, x, hx, _, hxi⟩ := mem_outUIdx.1 hb'
  exact ((mem_goneIdx hb).1 ha).2 n (List.mem_map.2 ⟨x, hx, hxi⟩)

/-- one cycle: what was gone or retiring before is gone afterwards -/
theorem gone_step {p : Proc N} {prog : List (Instr N)} (hn : (p.allUnits.map (·.name)).Nodup)
    (ho : orderOK p = true) {e e' : Nat} {old new : Util N} (h : Step p prog e old new e')
    (hb : RowBase p e old) (hnd : RowND old) (hb' : RowBase p e' new) :
    (goneIdx p old e).length + countOut p.outBoundary old ≤ (goneIdx p new e').length := by
  rw [countOut_eq_length, ← List.length_append]
  apply length_le_of_nodup_subset (gone_outU_nodup hn hb hnd e)
  intro i hi
  rw [mem_goneIdx hb']
  rcases List.mem_append.1 hi with hi | hi
  · obtain ⟨h1, h2⟩ := (mem_goneIdx hb).1 hi
    exact ⟨Nat.lt_of_lt_of_le h1 h.le, h.not_hosted_of_not_hosted h1 h2⟩
  · obtain ⟨n, hn', x, hx, hxs, hxi⟩ := mem_outUIdx.1 hi
    have hlt := hb.idx_lt n x hx
    have hfl := h.flushed hb hnd ho hn' hx (by rw [hxs]; simp)
    rw [hxi] at hlt hfl
    exact ⟨Nat.lt_of_lt_of_le hlt h.le, hfl⟩

/-- if the retirement counter has reached the number of entered instructions (and is bounded as in `RouteInv`),
everything still hosted sits unstalled at the output boundary -/
theorem all_retiring_of_le {p : Proc N} (hn : (p.allUnits.map (·.name)).Nodup) {e : Nat} {u : Util N}
    (hb : RowBase p e u) (hnd : RowND u) (hle : e ≤ (goneIdx p u e).length + countOut p.outBoundary u) :
    ∀ n x, x ∈ u.get n → n ∈ p.outBoundary ∧ x.st = .U := by
  rw [countOut_eq_length, ← List.length_append] at hle
  have hsub : ∀ a ∈ goneIdx p u e ++ outUIdx p.outBoundary u, a ∈ List.range e := by
    intro a ha
    rw [List.mem_range]
    rcases List.mem_append.1 ha with ha | ha
    · exact ((mem_goneIdx hb).1 ha).1
    · obtain ⟨n, _, x, hx, _, hxi⟩ := mem_outUIdx.1 ha
      rw [← hxi]; exact hb.idx_lt n x hx
  have hall := mem_of_nodup_subset_of_length_ge (gone_outU_nodup hn hb hnd e) hsub (by simpa using hle)
  intro n x hx
  have := hall x.idx (List.mem_range.2 (hb.idx_lt n x hx))
  rcases List.mem_append.1 this with h1 | h1
  · exact absurd (List.mem_map.2 ⟨x, hx, rfl⟩) (((mem_goneIdx hb).1 h1).2 n)
  · obtain ⟨n', hn', x', hx', hxs', hxi'⟩ := mem_outUIdx.1 h1
    have e1 : n' = n := hnd.unique_host n' n x.idx (List.mem_map.2 ⟨x', hx', hxi'⟩) (List.mem_map.2 ⟨x, hx, rfl⟩)
    subst e1
    have : x' = x := eq_of_key_eq_of_nodup (fun h : HI => h.idx) (hnd.nodup_unit n') hx' hx hxi'
    subst this
    exact ⟨hn', hxs'⟩

end accounting

/-! ## 5. The state invariant and its lifting to diagrams -/

section chain
omit [LT N] [DecidableRel (α := N) (· < ·)]

/-- the two-row relation together with the row invariants of both records -/
structure StepB (p : Proc N) (prog : List (Instr N)) (e : Nat) (old new : Util N) (e' : Nat) : Prop
    extends Step p prog e old new e' where
  oldBase : RowBase p e old
  oldND : RowND old
  newBase : RowBase p e' new
  newND : RowND new

/-- `ChainE p prog e' table`: the newest-first `table` was recorded by cycles related by `StepB`, the entered counter
going from `0` to `e'` -/
def ChainE (p : Proc N) (prog : List (Instr N)) : Nat → List (Util N) → Prop
  | e', [] => e' = 0
  | e', r :: rest => ∃ e, StepB p prog e (rest.head?.getD ([] : List (N × List HI))) r e' ∧ ChainE p prog e rest

omit [DecidableEq N] in
theorem head?_getD_eq_reverse_getD (table : List (Util N)) :
    table.head?.getD ([] : List (N × List HI)) =
      table.reverse.getD (table.length - 1) ([] : List (N × List HI)) := by
  cases table with
  | nil => rfl
  | cons r rest =>
    simp only [List.head?_cons, Option.getD_some, List.reverse_cons, List.length_cons, Nat.add_sub_cancel,
      List.getD_eq_getElem?_getD]
    rw [List.getElem?_append_right (by simp)]
    simp

omit [DecidableEq N] in
theorem getD_reverse_cons_lt (r : Util N) (rest : List (Util N)) {t : Nat} (h : t < rest.length) :
    (r :: rest).reverse.getD t ([] : List (N × List HI)) = rest.reverse.getD t ([] : List (N × List HI)) := by
  simp only [List.reverse_cons, List.getD_eq_getElem?_getD]
  rw [List.getElem?_append_left (by simpa using h)]

omit [DecidableEq N] in
theorem getD_reverse_cons_last (r : Util N) (rest : List (Util N)) :
    (r :: rest).reverse.getD rest.length ([] : List (N × List HI)) = r := by
  simp only [List.reverse_cons, List.getD_eq_getElem?_getD]
  rw [List.getElem?_append_right (by simp)]
  simp

omit [DecidableEq N] in
theorem prevRow_reverse_cons_le (r : Util N) (rest : List (Util N)) {t : Nat} (h : t ≤ rest.length) :
    prevRow (r :: rest).reverse t = prevRow rest.reverse t := by
  unfold prevRow
  by_cases h0 : t = 0
  · simp [h0]
  · rw [if_neg h0, if_neg h0]
    exact getD_reverse_cons_lt r rest (by omega)

omit [DecidableEq N] in
theorem prevRow_reverse_cons_last (r : Util N) (rest : List (Util N)) :
    prevRow (r :: rest).reverse rest.length = rest.head?.getD ([] : List (N × List HI)) := by
  rw [prevRow_reverse_cons_le r rest (Nat.le_refl _), head?_getD_eq_reverse_getD]
  unfold prevRow
  cases rest with
  | nil => rfl
  | cons r' rest' => simp

/-- the entered counters as a function of the row number: `E t` instructions had entered before cycle `t` -/
theorem ChainE.toFun {p : Proc N} {prog : List (Instr N)} :
    ∀ {table : List (Util N)} {e' : Nat}, ChainE p prog e' table →
      ∃ E : Nat → Nat, E 0 = 0 ∧ E table.length = e' ∧
        ∀ t, t < table.length →
          StepB p prog (E t) (prevRow table.reverse t) (table.reverse.getD t ([] : List (N × List HI))) (E (t + 1))
  | [], e', h => ⟨fun _ => 0, rfl, by simpa [ChainE] using h.symm, fun t ht => by simp at ht⟩
  | r :: rest, e', h => by
    obtain ⟨e, hstep, hch⟩ := h
    obtain ⟨E0, h0, hlast, hall⟩ := ChainE.toFun hch
    have hE1 : ∀ t, t ≤ rest.length → (fun t => if t ≤ rest.length then E0 t else e') t = E0 t :=
      fun t ht => if_pos ht
    have hE2 : (fun t => if t ≤ rest.length then E0 t else e') (rest.length + 1) = e' := if_neg (by omega)
    refine ⟨fun t => if t ≤ rest.length then E0 t else e', by rw [hE1 0 (Nat.zero_le _)]; exact h0, hE2, ?_⟩
    intro t ht
    simp only [List.length_cons] at ht
    by_cases hlt : t < rest.length
    · rw [hE1 t (by omega), hE1 (t + 1) (by omega), getD_reverse_cons_lt r rest hlt,
        prevRow_reverse_cons_le r rest (by omega)]
      exact hall t hlt
    · have ht' : t = rest.length := by omega
      subst ht'
      rw [hE1 _ (Nat.le_refl _), hE2, hlast, getD_reverse_cons_last, prevRow_reverse_cons_last]
      exact hstep

end chain

/-- **State invariant of the route proofs**: the core invariant, the chain of two-row relations over the recorded
table, and the bound on the retirement counter. -/
structure RouteInv (p : Proc N) (prog : List (Instr N)) (s : SimState N) : Prop extends CoreInv p prog s where
  chain : ChainE p prog s.entered s.table
  exit : s.exited ≤ (goneIdx p s.util s.entered).length + countOut p.outBoundary s.util

omit [LT N] [DecidableRel (α := N) (· < ·)] in
theorem RouteInv.init (p : Proc N) (prog : List (Instr N)) : RouteInv p prog (initState prog) :=
  ⟨CoreInv.init p prog, rfl, Nat.zero_le _⟩

theorem RouteInv.step_wf {p : Proc N} {prog : List (Instr N)} (hwf : wfProc p = true) {s s' : SimState N}
    (h : RouteInv p prog s) (hs : runCycle p prog s = .ok (some s')) : RouteInv p prog s' := by
  have hc := h.toCoreInv.step_wf hwf hs
  have hst := runCycle_step hwf h.toCoreInv hs
  have hg := gone_step (wfProc_nodup_names hwf) (wfProc_orderOK hwf) hst h.row h.nd hc.row
  have hex := h.exit
  obtain ⟨lab, qs, hlab, _, _, rfl⟩ := runCycle_eq_some hs
  refine ⟨hc, ⟨s.entered, ?_, h.chain⟩, ?_⟩
  · rw [← h.util_eq]
    exact ⟨hst, h.row, h.nd, hc.row, hc.nd⟩
  · simp only at hg ⊢
    omega

theorem Diagram_RouteInv {p : Proc N} {prog : List (Instr N)} (hwf : wfProc p = true)
    {tbl : List (Util N)} {stalled : Bool} (h : Diagram p prog tbl stalled) :
    ∃ s, RouteInv p prog s ∧ tbl = s.table.reverse ∧ (stalled = true → runCycle p prog s = .ok none) ∧
      (stalled = false → s.finished prog = true) :=
  simulate_induction (RouteInv p prog) (RouteInv.init p prog) (fun _ _ hs hr => hs.step_wf hwf hr) tbl stalled h

/-- **Routes of a diagram.** There are entered counters `E t` (`E 0 = 0`, non-decreasing, `E T ≤` program length)
such that every recorded cycle `t` is related to the cycle before by `StepB … (E t) … (E (t+1))`; a returned diagram
has `E T =` program length and its last cycle hosts only unstalled instructions in output-boundary ports. -/
theorem Diagram_route {p : Proc N} {prog : List (Instr N)} (hwf : wfProc p = true)
    {tbl : List (Util N)} {stalled : Bool} (h : Diagram p prog tbl stalled) :
    ∃ E : Nat → Nat, E 0 = 0 ∧ E tbl.length ≤ prog.length ∧
      (∀ t, t < tbl.length →
        StepB p prog (E t) (prevRow tbl t) (tbl.getD t ([] : List (N × List HI))) (E (t + 1))) ∧
      (stalled = false → E tbl.length = prog.length ∧
        ∀ n x, x ∈ (tbl.getD (tbl.length - 1) ([] : List (N × List HI))).get n → n ∈ p.outBoundary ∧ x.st = .U) := by
  obtain ⟨s, hs, rfl, _, hfin⟩ := Diagram_RouteInv hwf h
  obtain ⟨E, h0, hlast, hall⟩ := hs.chain.toFun
  refine ⟨E, h0, ?_, ?_, ?_⟩
  · rw [List.length_reverse, hlast]; exact hs.entered_le
  · intro t ht; exact hall t (by simpa using ht)
  · intro hst
    have hf := hfin hst
    simp only [SimState.finished, Bool.not_eq_true', Bool.or_eq_false_iff, decide_eq_false_iff_not,
      Nat.not_lt] at hf
    have hle := hs.entered_le
    refine ⟨by rw [List.length_reverse, hlast]; omega, ?_⟩
    rw [List.length_reverse, ← head?_getD_eq_reverse_getD, ← hs.util_eq]
    exact all_retiring_of_le (wfProc_nodup_names hwf) hs.row hs.nd (by have := hs.exit; omega)

/-! ## 6. `Ctx.positions` -/

section positions
omit [LT N] [DecidableRel (α := N) (· < ·)]

namespace Routes

theorem filter_idx_length_le_one {l : List HI} (hn : (l.map (·.idx)).Nodup) (i : Nat) :
    (l.filter (fun h => h.idx == i)).length ≤ 1 := by
  induction l with
  | nil => simp
  | cons h l ih =>
    simp only [List.map_cons, List.nodup_cons] at hn
    rw [List.filter_cons]
    split
    · next hi =>
      have hi' : h.idx = i := by simpa using hi
      have : l.filter (fun h => h.idx == i) = [] := by
        rw [List.filter_eq_nil_iff]
        intro x hx hxi
        have hxi' : x.idx = i := by simpa using hxi
        exact hn.1 (List.mem_map.2 ⟨x, hx, by rw [hi', hxi']⟩)
      simp [this]
    · exact ih hn.2

theorem flatMap_length_le_one {α β : Type} {l : List α} {f : α → List β} (hl : l.Nodup)
    (h1 : ∀ a ∈ l, (f a).length ≤ 1) (h2 : ∀ a ∈ l, ∀ b ∈ l, f a ≠ [] → f b ≠ [] → a = b) :
    (l.flatMap f).length ≤ 1 := by
  induction l with
  | nil => simp
  | cons a l ih =>
    rw [List.nodup_cons] at hl
    rw [List.flatMap_cons, List.length_append]
    by_cases ha : f a = []
    · rw [ha]
      simpa using ih hl.2 (fun b hb => h1 b (List.mem_cons_of_mem _ hb))
        (fun b hb c hc => h2 b (List.mem_cons_of_mem _ hb) c (List.mem_cons_of_mem _ hc))
    · have : l.flatMap f = [] := by
        rw [List.flatMap_eq_nil_iff]
        intro b hb
        refine Classical.byContradiction (fun hne => ?_)
        have := h2 a List.mem_cons_self b (List.mem_cons_of_mem _ hb) ha hne
        exact hl.1 (this ▸ hb)
      rw [this]; simpa using h1 a List.mem_cons_self

theorem nodup_of_nodup_map {α β : Type} (f : α → β) {l : List α} (h : (l.map f).Nodup) : l.Nodup := by
  induction l with
  | nil => simp
  | cons a l ih =>
    simp only [List.map_cons, List.nodup_cons] at h ⊢
    exact ⟨fun ha => h.1 (List.mem_map.2 ⟨a, ha, rfl⟩), ih h.2⟩

theorem eq_singleton_of_length_le_one {α : Type} {l : List α} (h1 : l.length ≤ 1) (h2 : l ≠ []) : ∃ x, l = [x] := by
  match l, h1, h2 with
  | [], _, h2 => exact absurd rfl h2
  | [x], _, _ => exact ⟨x, rfl⟩
  | _ :: _ :: _, h1, _ => simp at h1

/-- a flat-map of singletons over consecutive numbers is a chain of whatever relates neighbours -/
theorem adjacent_flatMap_range' {α : Type} (g : Nat → List α) (R : α → α → Prop) :
    ∀ (m f : Nat), (∀ t, f ≤ t → t < f + m → ∃ x, g t = [x]) →
      (∀ t a b, f ≤ t → t + 1 < f + m → a ∈ g t → b ∈ g (t + 1) → R a b) →
      Adjacent R ((List.range' f m).flatMap g)
  | 0, f, _, _ => by simp [Adjacent]
  | 1, f, hs, _ => by
    obtain ⟨x, hx⟩ := hs f (Nat.le_refl _) (by omega)
    simp [List.range'_succ, hx, Adjacent]
  | m + 2, f, hs, hr => by
    obtain ⟨a, ha⟩ := hs f (Nat.le_refl _) (by omega)
    obtain ⟨b, hb⟩ := hs (f + 1) (by omega) (by omega)
    have ih := adjacent_flatMap_range' g R (m + 1) (f + 1) (fun t h1 h2 => hs t (by omega) (by omega))
      (fun t a b h1 h2 => hr t a b (by omega) (by omega))
    rw [List.range'_succ, List.flatMap_cons, ha]
    rw [List.range'_succ, List.flatMap_cons, hb] at ih ⊢
    exact ⟨hr f a b (Nat.le_refl _) (by omega) (by rw [ha]; simp) (by rw [hb]; simp), ih⟩

theorem head?_flatMap_range' {α : Type} (g : Nat → List α) (f m : Nat) (hm : 0 < m) (hf : g f ≠ []) :
    ((List.range' f m).flatMap g).head? = (g f).head? := by
  obtain ⟨m', rfl⟩ : ∃ m', m = m' + 1 := ⟨m - 1, by omega⟩
  rw [List.range'_succ, List.flatMap_cons, List.head?_append]
  cases h : g f with
  | nil => exact absurd h hf
  | cons a l => rfl

theorem getLast?_flatMap_range' {α : Type} (g : Nat → List α) (f m : Nat) (hl : g (f + m) ≠ []) :
    ((List.range' f (m + 1)).flatMap g).getLast? = (g (f + m)).getLast? := by
  rw [List.range'_concat, List.flatMap_append, List.getLast?_append]
  simp only [Nat.one_mul, List.flatMap_cons, List.flatMap_nil, List.append_nil]
  cases h : g (f + m) with
  | nil => exact absurd h hl
  | cons a l => rw [List.getLast?_cons]; rfl

theorem exists_bracket (E : Nat → Nat) (i : Nat) : ∀ T, E 0 ≤ i → i < E T → ∃ f, f < T ∧ E f ≤ i ∧ i < E (f + 1)
  | 0, h0, hT => by omega
  | T + 1, h0, hT => by
    by_cases h : i < E T
    · obtain ⟨f, hf, h1, h2⟩ := exists_bracket E i T h0 h
      exact ⟨f, by omega, h1, h2⟩
    · exact ⟨T, by omega, by omega, hT⟩

end Routes

/-- the positions of instruction `i` in cycle `t` (the inner part of `Ctx.positions`) -/
def Spec.Ctx.rowPos (c : Ctx N) (i t : Nat) : List (Nat × UnitM N × Stall) :=
  c.units.flatMap (fun u => ((c.occ t u.name).filter (fun h => h.idx == i)).map (fun h => (t, u, h.st)))

/-- instruction `i` is hosted by some unit in cycle `t` -/
def Spec.Ctx.hostedAt (c : Ctx N) (i t : Nat) : Prop := ∃ n, i ∈ ((c.row t).get n).map (·.idx)

theorem positions_eq_flatMap (c : Ctx N) (i : Nat) : c.positions i = (List.range c.T).flatMap (c.rowPos i) := rfl

theorem mem_rowPos {c : Ctx N} {i t : Nat} {x : Nat × UnitM N × Stall} :
    x ∈ c.rowPos i t ↔ x.1 = t ∧ x.2.1 ∈ c.units ∧ (⟨i, x.2.2⟩ : HI) ∈ c.occ t x.2.1.name := by
  obtain ⟨t', u, l⟩ := x
  simp only [Ctx.rowPos, List.mem_flatMap, List.mem_map, List.mem_filter, beq_iff_eq, Prod.mk.injEq]
  constructor
  · rintro ⟨u', hu', h, ⟨hh, hi⟩, e1, e2, e3⟩
    subst e1 e2 e3
    obtain ⟨hidx, hst⟩ := h
    simp only at hi
    subst hi
    exact ⟨rfl, hu', hh⟩
  · rintro ⟨e1, hu, hh⟩
    subst e1
    exact ⟨u, hu, ⟨i, l⟩, ⟨hh, rfl⟩, rfl, rfl, rfl⟩

/-- **Positions, characterised**: `(t, u, l)` is a position of `i` iff `t` is a recorded cycle, `u` a unit of the
processor, and `u` hosts `i` with label `l` in cycle `t` -/
theorem mem_positions {c : Ctx N} {i : Nat} {x : Nat × UnitM N × Stall} :
    x ∈ c.positions i ↔ x.1 < c.T ∧ x.2.1 ∈ c.units ∧ (⟨i, x.2.2⟩ : HI) ∈ c.occ x.1 x.2.1.name := by
  rw [positions_eq_flatMap, List.mem_flatMap]
  constructor
  · rintro ⟨t, ht, hx⟩
    obtain ⟨e1, h2, h3⟩ := mem_rowPos.1 hx
    rw [e1]; exact ⟨List.mem_range.1 ht, h2, h3⟩
  · rintro ⟨h1, h2, h3⟩
    exact ⟨x.1, List.mem_range.2 h1, mem_rowPos.2 ⟨rfl, h2, h3⟩⟩

/-- **One unit per row**: in a row where no index is hosted twice, an instruction has at most one position -/
theorem rowPos_length_le_one {c : Ctx N} (hn : (c.units.map (·.name)).Nodup) {t : Nat} (hnd : RowND (c.row t))
    (i : Nat) : (c.rowPos i t).length ≤ 1 := by
  unfold Ctx.rowPos
  apply flatMap_length_le_one (nodup_of_nodup_map _ hn)
  · intro u _
    rw [List.length_map]
    exact filter_idx_length_le_one (hnd.nodup_unit u.name) i
  · intro a ha b hb h1 h2
    have key : ∀ u : UnitM N, ((c.occ t u.name).filter (fun h => h.idx == i)).map (fun h => (t, u, h.st)) ≠ [] →
        i ∈ ((c.row t).get u.name).map (·.idx) := by
      intro u hne
      obtain ⟨x, hx⟩ := List.exists_mem_of_ne_nil _ hne
      obtain ⟨h, hh, _⟩ := List.mem_map.1 hx
      obtain ⟨hh1, hh2⟩ := List.mem_filter.1 hh
      exact List.mem_map.2 ⟨h, hh1, by simpa using hh2⟩
    exact unit_eq_of_name_eq hn ha hb (hnd.unique_host _ _ i (key a h1) (key b h2))

theorem rowPos_ne_nil_iff {c : Ctx N} {e i t : Nat} (hb : RowBase c.p e (c.row t)) :
    c.rowPos i t ≠ [] ↔ c.hostedAt i t := by
  constructor
  · intro hne
    obtain ⟨x, hx⟩ := List.exists_mem_of_ne_nil _ hne
    obtain ⟨_, _, h3⟩ := mem_rowPos.1 hx
    exact ⟨x.2.1.name, List.mem_map.2 ⟨_, h3, rfl⟩⟩
  · rintro ⟨n, hn⟩
    obtain ⟨h, hh, hi⟩ := List.mem_map.1 hn
    have hne : (c.row t).get n ≠ [] := by intro e0; rw [e0] at hh; cases hh
    obtain ⟨u, hu, hun⟩ := List.mem_map.1 (hb.names n hne)
    have : (t, u, h.st) ∈ c.rowPos i t := by
      refine mem_rowPos.2 ⟨rfl, hu, ?_⟩
      show (⟨i, h.st⟩ : HI) ∈ (c.row t).get u.name
      rw [hun, ← hi]; exact hh
    intro e0; rw [e0] at this; cases this

theorem rowPos_eq_nil_of_not_hosted {c : Ctx N} {e i t : Nat} (hb : RowBase c.p e (c.row t))
    (h : ¬ c.hostedAt i t) : c.rowPos i t = [] :=
  Classical.byContradiction (fun hne => h ((rowPos_ne_nil_iff hb).1 hne))

/-- What `Diagram_route` provides, as a hypothesis on a context (so that the list-level arguments do not depend on
`simulate`). -/
structure Routed (c : Ctx N) (E : Nat → Nat) : Prop where
  names : (c.p.allUnits.map (·.name)).Nodup
  order : orderOK c.p = true
  zero : E 0 = 0
  le_n : E c.T ≤ c.n
  step : ∀ t, t < c.T → StepB c.p c.prog (E t) (prevRow c.tbl t) (c.row t) (E (t + 1))
  done : c.stalled = false → E c.T = c.n ∧
    ∀ n x, x ∈ (c.row (c.T - 1)).get n → n ∈ c.p.outBoundary ∧ x.st = .U

namespace Routed
variable {c : Ctx N} {E : Nat → Nat}

omit [DecidableEq N] in
theorem prevRow_succ (c : Ctx N) (t : Nat) : prevRow c.tbl (t + 1) = c.row t := by
  simp [prevRow, Ctx.row]

theorem mono (h : Routed c E) : ∀ {t t' : Nat}, t ≤ t' → t' ≤ c.T → E t ≤ E t' := by
  intro t t' h1 h2
  induction t' with
  | zero => have : t = 0 := by omega
            rw [this]; exact Nat.le_refl _
  | succ k ih =>
    by_cases hk : t = k + 1
    · rw [hk]; exact Nat.le_refl _
    · have := (h.step k (by omega)).le
      have := ih (by omega) (by omega)
      omega

theorem hosted_lt (h : Routed c E) {i t : Nat} (ht : t < c.T) (hh : c.hostedAt i t) : i < E (t + 1) := by
  obtain ⟨n, hn⟩ := hh
  obtain ⟨x, hx, rfl⟩ := List.mem_map.1 hn
  exact (h.step t ht).newBase.idx_lt n x hx

theorem hosted_of_issued (h : Routed c E) {i t : Nat} (ht : t < c.T) (h1 : E t ≤ i) (h2 : i < E (t + 1)) :
    c.hostedAt i t := (h.step t ht).hosted i h1 h2

theorem hosted_prev_or_issued (h : Routed c E) {i t : Nat} (ht : t < c.T) (hh : c.hostedAt i t) :
    (0 < t ∧ c.hostedAt i (t - 1)) ∨ (E t ≤ i ∧ i < E (t + 1)) := by
  obtain ⟨n, hn⟩ := hh
  rcases (h.step t ht).hosted_old_or_new hn with ⟨n', hn'⟩ | h2
  · left
    cases t with
    | zero => simp [prevRow] at hn'
    | succ k =>
      rw [prevRow_succ] at hn'
      exact ⟨by omega, n', by simpa using hn'⟩
  · exact Or.inr h2

theorem not_hosted_succ (h : Routed c E) {i t : Nat} (ht : t + 1 < c.T) (hi : i < E (t + 1))
    (hh : ¬ c.hostedAt i t) : ¬ c.hostedAt i (t + 1) := by
  intro hh'
  rcases h.hosted_prev_or_issued ht hh' with ⟨_, h2⟩ | ⟨h2, _⟩
  · exact hh (by simpa using h2)
  · omega

/-- **The rows hosting an issued instruction form one interval** `[f, f + m)`, `f` being the cycle of issue. -/
theorem interval (h : Routed c E) {i : Nat} (hi : i < E c.T) :
    ∃ f m, 0 < m ∧ f + m ≤ c.T ∧ E f ≤ i ∧ i < E (f + 1) ∧
      ∀ t, t < c.T → (c.hostedAt i t ↔ f ≤ t ∧ t < f + m) := by
  obtain ⟨f, hfT, hf1, hf2⟩ := exists_bracket E i c.T (by rw [h.zero]; exact Nat.zero_le _) hi
  have hbefore : ∀ t, t < f → ¬ c.hostedAt i t := by
    intro t ht hh
    have := h.hosted_lt (by omega) hh
    have := h.mono (t := t + 1) (t' := f) (by omega) (by omega)
    omega
  have key : ∀ T', f < T' → T' ≤ c.T →
      ∃ m, 0 < m ∧ f + m ≤ T' ∧ ∀ t, f ≤ t → t < T' → (c.hostedAt i t ↔ t < f + m) := by
    intro T'
    induction T' with
    | zero => intro h0; omega
    | succ T' ih =>
      intro h1 h2
      by_cases hfT' : f = T'
      · subst hfT'
        refine ⟨1, by omega, by omega, ?_⟩
        intro t ht1 ht2
        have : t = f := by omega
        subst this
        exact ⟨fun _ => by omega, fun _ => h.hosted_of_issued hfT hf1 hf2⟩
      · obtain ⟨m, hm0, hm1, hm2⟩ := ih (by omega) (by omega)
        by_cases hh : c.hostedAt i T'
        · have hfm : f + m = T' := by
            refine Classical.byContradiction (fun hne => ?_)
            have hnot : ¬ c.hostedAt i (T' - 1) := by
              intro hh'
              have := (hm2 (T' - 1) (by omega) (by omega)).1 hh'
              omega
            have hlt : i < E (T' - 1 + 1) := by
              have := h.mono (t := f + 1) (t' := T' - 1 + 1) (by omega) (by omega)
              omega
            have := h.not_hosted_succ (t := T' - 1) (by omega) hlt hnot
            rw [show T' - 1 + 1 = T' by omega] at this
            exact this hh
          refine ⟨m + 1, by omega, by omega, ?_⟩
          intro t ht1 ht2
          by_cases htT : t = T'
          · subst htT; exact ⟨fun _ => by omega, fun _ => hh⟩
          · have := hm2 t ht1 (by omega)
            constructor
            · intro a; have := this.1 a; omega
            · intro _; exact this.2 (by omega)
        · refine ⟨m, hm0, by omega, ?_⟩
          intro t ht1 ht2
          by_cases htT : t = T'
          · subst htT; exact ⟨fun a => absurd a hh, fun _ => by omega⟩
          · exact hm2 t ht1 (by omega)
  obtain ⟨m, hm0, hm1, hm2⟩ := key c.T hfT (Nat.le_refl _)
  refine ⟨f, m, hm0, hm1, hf1, hf2, ?_⟩
  intro t ht
  by_cases htf : t < f
  · exact ⟨fun a => absurd a (hbefore t htf), fun a => by omega⟩
  · have := hm2 t (by omega) ht
    exact ⟨fun a => ⟨by omega, this.1 a⟩, fun a => this.2 a.2⟩

theorem rowBase (h : Routed c E) {t : Nat} (ht : t < c.T) : RowBase c.p (E (t + 1)) (c.row t) :=
  (h.step t ht).newBase

theorem rowND (h : Routed c E) {t : Nat} (ht : t < c.T) : RowND (c.row t) := (h.step t ht).newND

/-- the positions of an issued instruction are the positions in the rows of its interval -/
theorem positions_eq_interval (h : Routed c E) {i f m : Nat} (hfm : f + m ≤ c.T)
    (hiff : ∀ t, t < c.T → (c.hostedAt i t ↔ f ≤ t ∧ t < f + m)) :
    c.positions i = (List.range' f m).flatMap (c.rowPos i) := by
  have hsplit : List.range c.T = List.range' 0 f ++ (List.range' f m ++ List.range' (f + m) (c.T - (f + m))) := by
    rw [List.range_eq_range']
    have e1 : List.range' f m ++ List.range' (f + m) (c.T - (f + m)) = List.range' f (m + (c.T - (f + m))) := by
      have := @List.range'_append f m (c.T - (f + m)) 1
      simp only [Nat.one_mul] at this
      exact this
    have e2 : List.range' 0 f ++ List.range' f (m + (c.T - (f + m))) = List.range' 0 (f + (m + (c.T - (f + m)))) := by
      have := @List.range'_append 0 f (m + (c.T - (f + m))) 1
      simpa using this
    rw [e1, e2]
    congr 1; omega
  have hnil : ∀ l : List Nat, (∀ t ∈ l, t < c.T ∧ ¬ (f ≤ t ∧ t < f + m)) → l.flatMap (c.rowPos i) = [] := by
    intro l hl
    rw [List.flatMap_eq_nil_iff]
    intro t ht
    obtain ⟨h1, h2⟩ := hl t ht
    exact rowPos_eq_nil_of_not_hosted (h.rowBase h1) (fun a => h2 ((hiff t h1).1 a))
  have h1 := hnil (List.range' 0 f) (by
    intro t ht
    obtain ⟨k, hk, rfl⟩ := List.mem_range'.1 ht
    constructor <;> omega)
  have h2 := hnil (List.range' (f + m) (c.T - (f + m))) (by
    intro t ht
    obtain ⟨k, hk, rfl⟩ := List.mem_range'.1 ht
    constructor <;> omega)
  rw [positions_eq_flatMap, hsplit, List.flatMap_append, List.flatMap_append, h1, h2]
  simp

theorem rowPos_singleton (h : Routed c E) {i t : Nat} (ht : t < c.T) (hh : c.hostedAt i t) :
    ∃ x, c.rowPos i t = [x] :=
  eq_singleton_of_length_le_one (rowPos_length_le_one h.names (h.rowND ht) i)
    ((rowPos_ne_nil_iff (h.rowBase ht)).2 hh)

end Routed

/-- how two positions of instruction `i` in consecutive cycles are related: same unit (then `S` iff it was not
data-stalled), or a move along a declared connection out of a unit where it was not data-stalled into a unit that
supports its capability, arriving with `U` or `D` -/
def PosStep (p : Proc N) (prog : List (Instr N)) (i : Nat) (a b : Nat × UnitM N × Stall) : Prop :=
  (a.2.1 = b.2.1 ∧ (b.2.2 = .S ↔ a.2.2 ≠ .D)) ∨
  (a.2.1.name ≠ b.2.1.name ∧ a.2.1.name ∈ predsOf p b.2.1.name ∧ a.2.2 ≠ .D ∧ b.2.2 ≠ .S ∧
    capIn prog i b.2.1.caps = true)

namespace Routed
variable {c : Ctx N} {E : Nat → Nat}

theorem hosted_of_mem_positions {i : Nat} {x : Nat × UnitM N × Stall} (hx : x ∈ c.positions i) :
    c.hostedAt i x.1 :=
  ⟨x.2.1.name, List.mem_map.2 ⟨_, (mem_positions.1 hx).2.2, rfl⟩⟩

/-- two positions of `i` in consecutive cycles -/
theorem pos_step (h : Routed c E) {i : Nat} {a b : Nat × UnitM N × Stall} (ha : a ∈ c.positions i)
    (hb : b ∈ c.positions i) (hab : b.1 = a.1 + 1) : PosStep c.p c.prog i a b := by
  obtain ⟨ta, ua, la⟩ := a
  obtain ⟨tb, ub, lb⟩ := b
  simp only at hab
  subst hab
  obtain ⟨ha1, ha2, ha3⟩ := mem_positions.1 ha
  obtain ⟨hb1, hb2, hb3⟩ := mem_positions.1 hb
  simp only at ha1 ha2 ha3 hb1 hb2 hb3
  have st := h.step (ta + 1) hb1
  rw [prevRow_succ] at st
  have hia : i ∈ ((c.row ta).get ua.name).map (·.idx) := List.mem_map.2 ⟨_, ha3, rfl⟩
  have same : ∀ n (y : HI), y ∈ (c.row ta).get n → y.idx = i → n = ua.name ∧ y = ⟨i, la⟩ := by
    intro n y hy hyi
    have e1 : n = ua.name := st.oldND.unique_host n ua.name i (List.mem_map.2 ⟨y, hy, hyi⟩) hia
    subst e1
    exact ⟨rfl, eq_of_key_eq_of_nodup (fun h : HI => h.idx) (st.oldND.nodup_unit _) hy ha3 hyi⟩
  unfold PosStep
  simp only
  rcases st.origin ub.name ⟨i, lb⟩ hb3 with ⟨y, hy, hyi, _, hS⟩ | ⟨hnS, hm | his⟩
  · obtain ⟨e1, e2⟩ := same _ y hy hyi
    left
    refine ⟨(unit_eq_of_name_eq h.names hb2 ha2 e1).symm, ?_⟩
    rw [e2] at hS; exact hS
  · obtain ⟨d, hd, hdn, q, hq, y, hy, hyi, hyd, hcap⟩ := hm
    obtain ⟨e1, e2⟩ := same _ y hy hyi
    right
    have hdm : d.model = ub :=
      unit_eq_of_name_eq h.names (model_mem_allUnits_of_mem_dests hd) hb2 hdn
    refine ⟨?_, ?_, ?_, hnS, ?_⟩
    · intro e3
      exact orderOK_self_not_pred h.order hd (by rw [hdn, ← e3, ← e1]; exact hq)
    · rw [← hdn, predsOf_of_mem h.names hd, ← e1]; exact hq
    · rw [e2] at hyd; exact hyd
    · rw [← hdm]; exact hcap
  · exfalso
    have := st.oldBase.idx_lt _ _ ha3
    have := his.1
    simp only at *
    omega

/-- a position whose instruction is not hosted in the cycle before: the instruction has just been issued -/
theorem pos_first (h : Routed c E) {i : Nat} {x : Nat × UnitM N × Stall} (hx : x ∈ c.positions i)
    (hprev : x.1 = 0 ∨ ¬ c.hostedAt i (x.1 - 1)) :
    x.2.1 ∈ c.p.inBoundary ∧ x.2.2 ≠ .S ∧ capIn c.prog i x.2.1.caps = true ∧ E x.1 ≤ i ∧ i < E (x.1 + 1) := by
  obtain ⟨t, u, l⟩ := x
  obtain ⟨h1, h2, h3⟩ := mem_positions.1 hx
  simp only at h1 h2 h3 hprev ⊢
  have st := h.step t h1
  have noprev : ∀ n (y : HI), y ∈ (prevRow c.tbl t).get n → y.idx = i → False := by
    intro n y hy hyi
    cases t with
    | zero => simp [prevRow] at hy
    | succ k =>
      rw [prevRow_succ] at hy
      rcases hprev with hp | hp
      · omega
      · exact hp ⟨n, List.mem_map.2 ⟨y, by simpa using hy, hyi⟩⟩
  rcases st.origin u.name ⟨i, l⟩ h3 with ⟨y, hy, hyi, _⟩ | ⟨hnS, hm | his⟩
  · exact (noprev _ y hy hyi).elim
  · obtain ⟨d, _, _, q, _, y, hy, hyi, _⟩ := hm
    exact (noprev _ y hy hyi).elim
  · obtain ⟨h4, h5, port, hport, hpn, hcap⟩ := his
    have : port = u := unit_eq_of_name_eq h.names (mem_allUnits_of_mem_inBoundary hport) h2 hpn
    subst this
    exact ⟨hport, hnS, hcap, h4, h5⟩

/-- a position whose instruction is not hosted in the next recorded cycle: it left through the output boundary,
unstalled -/
theorem pos_gone (h : Routed c E) {i : Nat} {x : Nat × UnitM N × Stall} (hx : x ∈ c.positions i)
    (hT : x.1 + 1 < c.T) (hnext : ¬ c.hostedAt i (x.1 + 1)) : x.2.1.name ∈ c.p.outBoundary ∧ x.2.2 = .U := by
  obtain ⟨t, u, l⟩ := x
  obtain ⟨h1, h2, h3⟩ := mem_positions.1 hx
  simp only at h1 h2 h3 hT hnext ⊢
  have st := h.step (t + 1) hT
  rw [prevRow_succ] at st
  obtain ⟨ho, hd⟩ := st.vanish u.name ⟨i, l⟩ h3 (fun n' hn' => hnext ⟨n', hn'⟩)
  have hs := (h.step t h1).outB_not_S ho h3
  simp only at hd hs
  refine ⟨ho, ?_⟩
  cases l <;> simp_all

/-- a position in the last cycle of a returned diagram -/
theorem pos_final (h : Routed c E) (hst : c.stalled = false) {i : Nat} {x : Nat × UnitM N × Stall}
    (hx : x ∈ c.positions i) (hT : x.1 + 1 = c.T) : x.2.1.name ∈ c.p.outBoundary ∧ x.2.2 = .U := by
  obtain ⟨_, _, h3⟩ := mem_positions.1 hx
  have h3' : (⟨i, x.2.2⟩ : HI) ∈ (c.row x.1).get x.2.1.name := h3
  exact (h.done hst).2 x.2.1.name ⟨i, x.2.2⟩ (by rw [← hT]; simpa using h3')

end Routed

/-- **The route of an instruction**, as a property of its list of positions `l`: non-empty; consecutive cycles related
by `PosStep`; starts with `U`/`D` in a supporting input-boundary port in its cycle of issue; ends unstalled in an
output-boundary port unless it is still in flight in the last cycle of a stall diagram. -/
structure RouteOf (c : Ctx N) (E : Nat → Nat) (i : Nat) (l : List (Nat × UnitM N × Stall)) : Prop where
  ne : l ≠ []
  chain : Adjacent (fun a b => b.1 = a.1 + 1 ∧ PosStep c.p c.prog i a b) l
  first : ∀ x, l.head? = some x →
    x.2.1 ∈ c.p.inBoundary ∧ x.2.2 ≠ .S ∧ capIn c.prog i x.2.1.caps = true ∧ E x.1 ≤ i ∧ i < E (x.1 + 1)
  last : ∀ x, l.getLast? = some x →
    (c.stalled = true ∧ x.1 + 1 = c.T) ∨ (x.2.1.name ∈ c.p.outBoundary ∧ x.2.2 = .U)
  mem : ∀ x ∈ l, x.1 < c.T ∧ x.2.1 ∈ c.p.allUnits

/-- **Every issued instruction has a route** (`positions_chain`). -/
theorem Routed.routeOf {c : Ctx N} {E : Nat → Nat} (h : Routed c E) {i : Nat} (hi : i < E c.T) :
    RouteOf c E i (c.positions i) := by
  obtain ⟨f, m, hm0, hfm, hf1, hf2, hiff⟩ := h.interval hi
  have hpos := h.positions_eq_interval hfm hiff
  have hsing : ∀ t, f ≤ t → t < f + m → ∃ x, c.rowPos i t = [x] :=
    fun t h1 h2 => h.rowPos_singleton (by omega) ((hiff t (by omega)).2 ⟨h1, h2⟩)
  have hmem : ∀ t, t < c.T → ∀ x ∈ c.rowPos i t, x ∈ c.positions i ∧ x.1 = t := by
    intro t ht x hx
    obtain ⟨e1, h2, h3⟩ := mem_rowPos.1 hx
    exact ⟨mem_positions.2 ⟨by rw [e1]; exact ht, h2, by rw [e1]; exact h3⟩, e1⟩
  refine ⟨?_, ?_, ?_, ?_, ?_⟩
  · obtain ⟨x, hx⟩ := hsing f (Nat.le_refl _) (by omega)
    intro e0
    have := (hmem f (by omega) x (by rw [hx]; simp)).1
    rw [e0] at this; cases this
  · rw [hpos]
    apply adjacent_flatMap_range' _ _ m f hsing
    intro t a b h1 h2 ha hb
    obtain ⟨ha1, ha2⟩ := hmem t (by omega) a ha
    obtain ⟨hb1, hb2⟩ := hmem (t + 1) (by omega) b hb
    have hab : b.1 = a.1 + 1 := by rw [ha2, hb2]
    exact ⟨hab, h.pos_step ha1 hb1 hab⟩
  · intro x hx
    obtain ⟨x0, hx0⟩ := hsing f (Nat.le_refl _) (by omega)
    rw [hpos, head?_flatMap_range' _ f m hm0 (by rw [hx0]; simp), hx0] at hx
    simp only [List.head?_cons, Option.some.injEq] at hx
    subst hx
    obtain ⟨h1, h2⟩ := hmem f (by omega) x0 (by rw [hx0]; simp)
    refine h.pos_first h1 ?_
    rw [h2]
    by_cases hf0 : f = 0
    · exact Or.inl hf0
    · right
      intro hh
      have := (hiff (f - 1) (by omega)).1 hh
      omega
  · intro x hx
    obtain ⟨m', rfl⟩ : ∃ m', m = m' + 1 := ⟨m - 1, by omega⟩
    obtain ⟨x0, hx0⟩ := hsing (f + m') (by omega) (by omega)
    rw [hpos, getLast?_flatMap_range' _ f m' (by rw [hx0]; simp), hx0] at hx
    simp only [List.getLast?_singleton, Option.some.injEq] at hx
    subst hx
    obtain ⟨h1, h2⟩ := hmem (f + m') (by omega) x0 (by rw [hx0]; simp)
    by_cases hT : x0.1 + 1 = c.T
    · cases hst : c.stalled with
      | true => exact Or.inl ⟨rfl, hT⟩
      | false => exact Or.inr (h.pos_final hst h1 hT)
    · right
      refine h.pos_gone h1 (by omega) ?_
      intro hh
      have := (hiff (x0.1 + 1) (by omega)).1 hh
      omega
  · intro x hx
    obtain ⟨h1, h2, _⟩ := mem_positions.1 hx
    exact ⟨h1, h2⟩

/-- instructions that have not entered have no position -/
theorem Routed.positions_eq_nil {c : Ctx N} {E : Nat → Nat} (h : Routed c E) {i : Nat} (hi : E c.T ≤ i) :
    c.positions i = [] := by
  rw [positions_eq_flatMap, List.flatMap_eq_nil_iff]
  intro t ht
  have ht' := List.mem_range.1 ht
  apply rowPos_eq_nil_of_not_hosted (h.rowBase ht')
  intro hh
  have := h.hosted_lt ht' hh
  have := h.mono (t := t + 1) (t' := c.T) (by omega) (Nat.le_refl _)
  omega

end positions

/-! ## 5'. `Routed` for diagrams and for reachable states -/

/-- every diagram of a well-formed processor is routed -/
theorem Diagram_routed {p : Proc N} {prog : List (Instr N)} (hwf : wfProc p = true)
    {tbl : List (Util N)} {stalled : Bool} (h : Diagram p prog tbl stalled) :
    ∃ E : Nat → Nat, Routed (ctx p prog tbl stalled) E := by
  obtain ⟨E, h0, hle, hstep, hdone⟩ := Diagram_route hwf h
  exact ⟨E, wfProc_nodup_names hwf, wfProc_orderOK hwf, h0, hle, hstep, hdone⟩

omit [LT N] [DecidableRel (α := N) (· < ·)] in
/-- the table recorded so far by a state satisfying `RouteInv` is routed (read as a stall diagram), with
`E (number of rows) = entered` -/
theorem RouteInv.routed {p : Proc N} {prog : List (Instr N)} (hwf : wfProc p = true) {s : SimState N}
    (h : RouteInv p prog s) :
    ∃ E : Nat → Nat, Routed (ctx p prog s.table.reverse true) E ∧ E s.table.length = s.entered := by
  obtain ⟨E, h0, hlast, hall⟩ := h.chain.toFun
  refine ⟨E, ⟨wfProc_nodup_names hwf, wfProc_orderOK hwf, h0, ?_, ?_, ?_⟩, hlast⟩
  · show E s.table.reverse.length ≤ prog.length
    rw [List.length_reverse, hlast]; exact h.entered_le
  · intro t ht
    exact hall t (by simpa [Ctx.T, ctx] using ht)
  · intro hst; cases hst

/-! ## 7. From the route to the checker's list predicates -/

section checker
omit [LT N] [DecidableRel (α := N) (· < ·)]

namespace Routes

theorem Adjacent_congr {α : Type} {R S : α → α → Prop} (h : ∀ a b, R a b ↔ S a b) {l : List α} :
    Adjacent R l ↔ Adjacent S l :=
  ⟨Adjacent.imp (fun a b => (h a b).1), Adjacent.imp (fun a b => (h a b).2)⟩

theorem consec_iff_adjacent {α : Type} (f : α → Nat) :
    ∀ {l : List α}, consec (l.map f) = true ↔ Adjacent (fun a b => f b = f a + 1) l
  | [] => by simp [consec, Adjacent]
  | [_] => by simp [consec, Adjacent]
  | a :: b :: rest => by
    have ih := consec_iff_adjacent f (l := b :: rest)
    simp only [List.map_cons] at ih
    simp only [List.map_cons, consec, Bool.and_eq_true, decide_eq_true_eq, Adjacent, ih]

theorem pairsOK_iff_adjacent {α : Type} (f : α → α → Bool) :
    ∀ {l : List α}, pairsOK f l = true ↔ Adjacent (fun a b => f a b = true) l
  | [] => by simp [pairsOK, Adjacent]
  | [_] => by simp [pairsOK, Adjacent]
  | a :: b :: rest => by
    have ih := pairsOK_iff_adjacent f (l := b :: rest)
    simp only [pairsOK, Bool.and_eq_true, Adjacent, ih]

theorem filter_lt_length : ∀ (n k : Nat), k ≤ n → ((List.range n).filter (fun i => decide (i < k))).length = k
  | 0, k, h => by
    have : k = 0 := by omega
    subst this; rfl
  | n + 1, k, h => by
    rw [List.range_succ, List.filter_append]
    by_cases hk : k ≤ n
    · rw [List.length_append, filter_lt_length n k hk]
      have : ¬ n < k := by omega
      simp [this]
    · have hk' : k = n + 1 := by omega
      subst hk'
      have e1 : (List.range n).filter (fun i => decide (i < n + 1)) = List.range n := by
        apply List.filter_eq_self.2
        intro a ha
        have := List.mem_range.1 ha
        simp; omega
      rw [e1]; simp

/-- a property of the first element that neighbours pass on holds for every element -/
theorem forall_of_adjacent {α : Type} {R : α → α → Prop} {P : α → Prop} (hR : ∀ a b, R a b → P a → P b) :
    ∀ {l : List α}, Adjacent R l → (∀ x, l.head? = some x → P x) → ∀ x ∈ l, P x
  | [], _, _ => by simp
  | [a], _, h0 => by
    intro x hx
    simp only [List.mem_singleton] at hx
    subst hx; exact h0 x rfl
  | a :: b :: rest, h, h0 => by
    intro x hx
    have ha : P a := h0 a rfl
    rcases List.mem_cons.1 hx with e | e
    · subst e; exact ha
    · exact forall_of_adjacent hR (l := b :: rest) h.2 (fun y hy => by
        simp only [List.head?_cons, Option.some.injEq] at hy
        rw [← hy]; exact hR a b h.1 ha) x e

end Routes

/-- a suffix of a stay: `D* U S*`, `S*`, or (open end) `D+` -/
def weakStay (o : Bool) (ls : List Stall) : Prop := stayOK o ls = true ∨ (ls ≠ [] ∧ ∀ s ∈ ls, s = .S)

/-- the open-end flag the C03 checker computes for a stay -/
def openOf (stalled : Bool) (T : Nat) (s : List (Nat × UnitM N × Stall)) : Bool :=
  stalled && (s.getLast?.map (·.1 + 1)) == some T

/-- the C03 checker's test of one stay -/
def stayGood (stalled : Bool) (T : Nat) (s : List (Nat × UnitM N × Stall)) : Bool :=
  stayOK (openOf stalled T s) (s.map (·.2.2))

theorem weakStay_single (o : Bool) (l : Stall) (h : l = .D → o = true) : weakStay o [l] := by
  cases l with
  | U => left; simp [stayOK]
  | S => right; simp
  | D => left; simp [stayOK, h rfl]

theorem weakStay_cons {o : Bool} {lx ly : Stall} {ls : List Stall} (hW : weakStay o (ly :: ls))
    (hS : ly = .S ↔ lx ≠ .D) : weakStay o (lx :: ly :: ls) := by
  cases lx with
  | D =>
    have hy : ly ≠ .S := fun e => (hS.1 e) rfl
    rcases hW with hW | ⟨_, hW⟩
    · left; simpa [stayOK] using hW
    · exact absurd (hW ly List.mem_cons_self) hy
  | U =>
    have hy : ly = .S := hS.2 (by simp)
    subst hy
    rcases hW with hW | ⟨_, hW⟩
    · simp [stayOK] at hW
    · left
      simp only [stayOK, List.all_eq_true, beq_iff_eq]
      exact hW
  | S =>
    have hy : ly = .S := hS.2 (by simp)
    subst hy
    rcases hW with hW | ⟨_, hW⟩
    · simp [stayOK] at hW
    · right
      refine ⟨by simp, ?_⟩
      intro s hs
      rcases List.mem_cons.1 hs with e | e
      · exact e
      · exact hW s e

theorem stayOK_of_weakStay {o : Bool} {l : Stall} {ls : List Stall} (hW : weakStay o (l :: ls)) (hl : l ≠ .S) :
    stayOK o (l :: ls) = true := by
  rcases hW with hW | ⟨_, hW⟩
  · exact hW
  · exact absurd (hW l List.mem_cons_self) hl

theorem stays_cons_of_eq {x : Nat × UnitM N × Stall} {xs : List (Nat × UnitM N × Stall)}
    {y : Nat × UnitM N × Stall} {ys : List (Nat × UnitM N × Stall)} {rest : List (List (Nat × UnitM N × Stall))}
    (h : stays xs = (y :: ys) :: rest) :
    stays (x :: xs) = if x.2.1.name = y.2.1.name then (x :: y :: ys) :: rest else [x] :: (y :: ys) :: rest := by
  rw [stays, h]

/-- the stays of a route: the first one is a suffix of a good stay, all others are good -/
theorem stays_of_chain {p : Proc N} {prog : List (Instr N)} {i : Nat} (stalled : Bool) (T : Nat) :
    ∀ {l : List (Nat × UnitM N × Stall)}, l ≠ [] →
      Adjacent (fun a b => b.1 = a.1 + 1 ∧ PosStep p prog i a b) l →
      (∀ x, l.getLast? = some x → x.2.2 = .D → (stalled && (x.1 + 1 == T)) = true) →
      ∃ x s rest, l.head? = some x ∧ stays l = (x :: s) :: rest ∧
        weakStay (openOf stalled T (x :: s)) ((x :: s).map (·.2.2)) ∧ rest.all (stayGood stalled T) = true
  | [], h, _, _ => absurd rfl h
  | [x], _, _, hlast => by
    refine ⟨x, [], [], rfl, by simp [stays], ?_, rfl⟩
    apply weakStay_single
    intro hd
    have := hlast x rfl hd
    simpa [openOf] using this
  | x :: y :: ys, _, hch, hlast => by
    obtain ⟨y', s, rest, hhead, hst, hW, hrest⟩ :=
      stays_of_chain stalled T (l := y :: ys) (by simp) hch.2 (by
        intro z hz; exact hlast z (by rw [List.getLast?_cons_cons]; exact hz))
    simp only [List.head?_cons, Option.some.injEq] at hhead
    subst hhead
    rcases hch.1.2 with ⟨hsame, hS⟩ | ⟨hne, _, hxD, hyS, _⟩
    · have hnm : x.2.1.name = y.2.1.name := by rw [hsame]
      refine ⟨x, y :: s, rest, rfl, by rw [stays_cons_of_eq hst, if_pos hnm], ?_, hrest⟩
      have ho : openOf stalled T (x :: y :: s) = openOf stalled T (y :: s) := by
        simp [openOf, List.getLast?_cons_cons]
      rw [ho]
      exact weakStay_cons hW hS
    · refine ⟨x, [], (y :: s) :: rest, rfl, by rw [stays_cons_of_eq hst, if_neg hne], ?_, ?_⟩
      · apply weakStay_single
        intro hd; exact absurd hd hxD
      · simp only [List.all_cons, Bool.and_eq_true]
        exact ⟨stayOK_of_weakStay hW hyS, hrest⟩

/-- **Labels of every stay read `D* U S*`** (open end: or `D+`), for a chain that starts with `U`/`D` and whose last
label is `D` only in the last cycle of a stall diagram -/
theorem stays_all_good {p : Proc N} {prog : List (Instr N)} {i : Nat} (stalled : Bool) (T : Nat)
    {l : List (Nat × UnitM N × Stall)} (hne : l ≠ [])
    (hch : Adjacent (fun a b => b.1 = a.1 + 1 ∧ PosStep p prog i a b) l)
    (hfirst : ∀ x, l.head? = some x → x.2.2 ≠ .S)
    (hlast : ∀ x, l.getLast? = some x → x.2.2 = .D → (stalled && (x.1 + 1 == T)) = true) :
    (stays l).all (stayGood stalled T) = true := by
  obtain ⟨x, s, rest, hhead, hst, hW, hrest⟩ := stays_of_chain stalled T hne hch hlast
  rw [hst, List.all_cons, Bool.and_eq_true]
  exact ⟨stayOK_of_weakStay hW (hfirst x hhead), hrest⟩

/-- an instruction appears in the diagram iff it has entered -/
theorem Routed.issued_iff {c : Ctx N} {E : Nat → Nat} (h : Routed c E) (i : Nat) :
    c.issued i = true ↔ i < E c.T := by
  unfold Ctx.issued
  by_cases hi : i < E c.T
  · have := (h.routeOf hi).ne
    cases hp : c.positions i with
    | nil => exact absurd hp this
    | cons x l => simp [hi]
  · rw [h.positions_eq_nil (by omega)]
    simp [hi]

/-- the number of instructions in the diagram is the final value of the entered counter -/
theorem Routed.enteredCount_eq {c : Ctx N} {E : Nat → Nat} (h : Routed c E) : c.enteredCount = E c.T := by
  unfold Ctx.enteredCount
  have : (List.range c.n).filter c.issued = (List.range c.n).filter (fun i => decide (i < E c.T)) := by
    apply List.filter_congr
    intro i _
    have := h.issued_iff i
    cases hb : c.issued i <;> simp_all
  rw [this]
  exact filter_lt_length c.n (E c.T) h.le_n


end checker

/-! ## 8. Exports for the hazard proofs -/

section exports
omit [LT N] [DecidableRel (α := N) (· < ·)]

namespace Routes

theorem eq_of_mem_of_length_le_one {α : Type} {l : List α} (h : l.length ≤ 1) {a b : α} (ha : a ∈ l) (hb : b ∈ l) :
    a = b := by
  match l, h, ha, hb with
  | [x], _, ha, hb =>
    simp only [List.mem_singleton] at ha hb
    rw [ha, hb]
  | _ :: _ :: _, h, _, _ => simp at h

theorem adjacent_map {α β : Type} (f : α → β) (R : β → β → Prop) :
    ∀ {l : List α}, Adjacent R (l.map f) ↔ Adjacent (fun a b => R (f a) (f b)) l
  | [] => Iff.rfl
  | [_] => Iff.rfl
  | a :: b :: rest => by
    have ih := adjacent_map f R (l := b :: rest)
    simp only [List.map_cons] at ih
    simp only [List.map_cons, Adjacent, ih]

/-- a chain of a transitive relation is pairwise related -/
theorem pairwise_of_adjacent_trans {α : Type} {R : α → α → Prop} (htrans : ∀ a b c, R a b → R b c → R a c) :
    ∀ {l : List α}, Adjacent R l → l.Pairwise R
  | [], _ => List.Pairwise.nil
  | [_], _ => by simp
  | a :: b :: rest, h => by
    have ih := pairwise_of_adjacent_trans htrans (l := b :: rest) h.2
    refine List.pairwise_cons.2 ⟨?_, ih⟩
    intro y hy
    rcases List.mem_cons.1 hy with e | e
    · rw [e]; exact h.1
    · exact htrans a b y h.1 ((List.pairwise_cons.1 ih).1 y e)

theorem pairwise_mem {α : Type} {R : α → α → Prop} {l : List α} (h : l.Pairwise R) {a b : α} (ha : a ∈ l)
    (hb : b ∈ l) : a = b ∨ R a b ∨ R b a := by
  induction l with
  | nil => cases ha
  | cons x l ih =>
    obtain ⟨h1, h2⟩ := List.pairwise_cons.1 h
    rcases List.mem_cons.1 ha with ea | ea <;> rcases List.mem_cons.1 hb with eb | eb
    · exact Or.inl (ea.trans eb.symm)
    · subst ea; exact Or.inr (Or.inl (h1 b eb))
    · subst eb; exact Or.inr (Or.inr (h1 a ea))
    · exact ih h2 ea eb

end Routes

/-- position of a unit in the processing order: destinations by their stored index (sinks first), all other units
(the pure input ports) last. Every declared connection `q → n` goes from a higher to a lower rank. -/
def unitRank (p : Proc N) (n : N) : Nat := (destPos p n).getD p.dests.length

theorem unitRank_lt_of_pred {p : Proc N} (ho : orderOK p = true) {n q : N} (hq : q ∈ predsOf p n) :
    unitRank p n < unitRank p q := by
  unfold predsOf at hq
  cases hf : p.dests.find? (fun d => decide (d.model.name = n)) with
  | none => rw [hf] at hq; cases hq
  | some d =>
    rw [hf] at hq
    have hd := List.mem_of_find?_eq_some hf
    have hdn : d.model.name = n := by simpa using List.find?_some hf
    obtain ⟨_, _, hpos⟩ := orderOK_pred ho hd hq
    obtain ⟨k, hk⟩ := destPos_isSome_of_mem hd
    have hklt : k < p.dests.length := by
      unfold destPos at hk
      obtain ⟨hlt, _⟩ := List.findIdx?_eq_some_iff_getElem.1 hk
      exact hlt
    rw [hdn] at hk
    unfold unitRank
    rw [hk]
    cases hkq : destPos p q with
    | none => simpa using hklt
    | some kq =>
      obtain ⟨kd, hkd, hlt⟩ := hpos kq hkq
      rw [hdn, hk] at hkd
      cases hkd
      simpa using hlt

/-- order of two positions of one instruction: later in time, not higher in rank, and if the rank is the same then
the unit is the same and a label other than `D` is followed by `S` only -/
def PosOrder (p : Proc N) (a b : Nat × UnitM N × Stall) : Prop :=
  a.1 < b.1 ∧ unitRank p b.2.1.name ≤ unitRank p a.2.1.name ∧
    (unitRank p b.2.1.name = unitRank p a.2.1.name → a.2.1 = b.2.1 ∧ (a.2.2 ≠ .D → b.2.2 = .S))

theorem PosOrder.trans {p : Proc N} {a b c : Nat × UnitM N × Stall} (h1 : PosOrder p a b) (h2 : PosOrder p b c) :
    PosOrder p a c := by
  obtain ⟨t1, r1, e1⟩ := h1
  obtain ⟨t2, r2, e2⟩ := h2
  refine ⟨by omega, by omega, ?_⟩
  intro hr
  obtain ⟨u1, l1⟩ := e1 (by omega)
  obtain ⟨u2, l2⟩ := e2 (by omega)
  refine ⟨u1.trans u2, ?_⟩
  intro ha
  have hb := l1 ha
  exact l2 (by rw [hb]; simp)

theorem PosOrder.of_step {p : Proc N} {prog : List (Instr N)} {i : Nat} (ho : orderOK p = true)
    {a b : Nat × UnitM N × Stall} (ht : b.1 = a.1 + 1) (h : PosStep p prog i a b) : PosOrder p a b := by
  rcases h with ⟨e, hS⟩ | ⟨_, hp, _, _, _⟩
  · refine ⟨by omega, by rw [e]; exact Nat.le_refl _, fun _ => ⟨e, fun ha => hS.2 ha⟩⟩
  · have := unitRank_lt_of_pred ho hp
    exact ⟨by omega, by omega, fun e => by omega⟩

variable {c : Ctx N} {E : Nat → Nat}

/-- **One unit per row**: two positions of an instruction in the same cycle coincide -/
theorem Routed.positions_unique_row (h : Routed c E) {i : Nat} {x y : Nat × UnitM N × Stall}
    (hx : x ∈ c.positions i) (hy : y ∈ c.positions i) (hxy : x.1 = y.1) : x = y := by
  obtain ⟨h1, h2, h3⟩ := mem_positions.1 hx
  obtain ⟨k1, k2, k3⟩ := mem_positions.1 hy
  exact eq_of_mem_of_length_le_one (rowPos_length_le_one h.names (h.rowND h1) i)
    (mem_rowPos.2 ⟨rfl, h2, h3⟩) (mem_rowPos.2 ⟨hxy.symm, k2, by rw [hxy]; exact k3⟩)

/-- the positions of an instruction are pairwise ordered by `PosOrder` -/
theorem Routed.positions_pairwise (h : Routed c E) (i : Nat) : (c.positions i).Pairwise (PosOrder c.p) := by
  by_cases hi : i < E c.T
  · apply pairwise_of_adjacent_trans (R := PosOrder c.p) (fun _ _ _ h1 h2 => PosOrder.trans h1 h2)
    exact (h.routeOf hi).chain.imp (fun a b hab => PosOrder.of_step h.order hab.1 hab.2)
  · rw [h.positions_eq_nil (by omega)]; exact List.Pairwise.nil

/-- **No unit is visited twice**: between two positions in the same unit the instruction is in that unit -/
theorem Routed.no_revisit (h : Routed c E) {i : Nat} {a x b : Nat × UnitM N × Stall} (ha : a ∈ c.positions i)
    (hx : x ∈ c.positions i) (hb : b ∈ c.positions i) (hab : a.2.1.name = b.2.1.name) (h1 : a.1 ≤ x.1)
    (h2 : x.1 ≤ b.1) : x.2.1 = a.2.1 := by
  have hp := h.positions_pairwise i
  rcases pairwise_mem hp ha hx with e | hax | hxa
  · rw [e]
  · rcases pairwise_mem hp hx hb with e | hxb | hbx
    · rw [e]
      rcases pairwise_mem hp ha hb with e' | hab' | hba'
      · rw [e']
      · exact (hab'.2.2 (by rw [hab])).1.symm
      · exact (hba'.2.2 (by rw [hab])).1
    · have r1 := hax.2.1
      have r2 := hxb.2.1
      rw [← hab] at r2
      exact (hax.2.2 (by omega)).1.symm
    · have := hbx.1; omega
  · have := hxa.1; omega

/-- **Label `U` at most once per (instruction, unit)**: two positions of an instruction in the same unit that are
both labelled `U` coincide -/
theorem Routed.U_once (h : Routed c E) {i : Nat} {a b : Nat × UnitM N × Stall} (ha : a ∈ c.positions i)
    (hb : b ∈ c.positions i) (hab : a.2.1.name = b.2.1.name) (hau : a.2.2 = .U) (hbu : b.2.2 = .U) : a = b := by
  rcases pairwise_mem (h.positions_pairwise i) ha hb with e | h1 | h1
  · exact e
  · have := (h1.2.2 (by rw [hab])).2 (by rw [hau]; simp)
    rw [hbu] at this; cases this
  · have := (h1.2.2 (by rw [hab])).2 (by rw [hbu]; simp)
    rw [hau] at this; cases this

/-- the units instruction `i` has visited up to cycle `t`, one entry per cycle (so a stay repeats its unit) -/
def Spec.Ctx.visited (c : Ctx N) (i t : Nat) : List (UnitM N) :=
  ((c.positions i).takeWhile (fun x => decide (x.1 ≤ t))).map (·.2.1)

/-- **The units an instruction has visited up to cycle `t` form a walk along declared connections that starts at an
input-boundary port; all of them are units of the processor supporting its capability.** -/
theorem Routed.visited_walk (h : Routed c E) (i t : Nat) :
    (∀ u ∈ c.visited i t, u ∈ c.p.allUnits ∧ capIn c.prog i u.caps = true) ∧
    (∀ u, (c.visited i t).head? = some u → u ∈ c.p.inBoundary) ∧
    Adjacent (fun a b : UnitM N => a = b ∨ a.name ∈ predsOf c.p b.name) (c.visited i t) := by
  unfold Ctx.visited
  by_cases hi : i < E c.T
  · have hr := h.routeOf hi
    have hsplit := List.takeWhile_append_dropWhile (p := fun x : Nat × UnitM N × Stall => decide (x.1 ≤ t))
      (l := c.positions i)
    have hsub : ∀ x ∈ (c.positions i).takeWhile (fun x => decide (x.1 ≤ t)), x ∈ c.positions i :=
      fun x hx => (List.takeWhile_sublist _).subset hx
    have hcap : ∀ x ∈ c.positions i, capIn c.prog i x.2.1.caps = true := by
      refine forall_of_adjacent (P := fun x => capIn c.prog i x.2.1.caps = true) ?_ hr.chain
        (fun x hx => (hr.first x hx).2.2.1)
      intro a b hab ha
      rcases hab.2 with ⟨e, _⟩ | ⟨_, _, _, _, hc⟩
      · rw [← e]; exact ha
      · exact hc
    refine ⟨?_, ?_, ?_⟩
    · intro u hu
      obtain ⟨x, hx, rfl⟩ := List.mem_map.1 hu
      exact ⟨(hr.mem x (hsub x hx)).2, hcap x (hsub x hx)⟩
    · intro u hu
      cases hp : c.positions i with
      | nil => rw [hp] at hu; simp at hu
      | cons x l =>
        rw [hp, List.takeWhile_cons] at hu
        split at hu
        · simp only [List.map_cons, List.head?_cons, Option.some.injEq] at hu
          rw [← hu]; exact (hr.first x (by rw [hp]; rfl)).1
        · simp at hu
    · rw [adjacent_map]
      have hch : Adjacent (fun a b => b.1 = a.1 + 1 ∧ PosStep c.p c.prog i a b)
          ((c.positions i).takeWhile (fun x => decide (x.1 ≤ t))) := by
        have := hr.chain
        rw [← hsplit] at this
        exact this.of_append_left
      refine hch.imp ?_
      intro a b hab
      rcases hab.2 with ⟨e, _⟩ | ⟨_, hp, _, _, _⟩
      · exact Or.inl e
      · exact Or.inr hp
  · rw [h.positions_eq_nil (by omega)]
    simp [Adjacent]

end exports

/-- `visited_walk` for the diagrams of `simulate` -/
theorem visited_walk {p : Proc N} {prog : List (Instr N)} (hwf : wfProc p = true) {tbl : List (Util N)}
    {stalled : Bool} (h : Diagram p prog tbl stalled) (i t : Nat) :
    (∀ u ∈ (ctx p prog tbl stalled).visited i t, u ∈ p.allUnits ∧ capIn prog i u.caps = true) ∧
    (∀ u, ((ctx p prog tbl stalled).visited i t).head? = some u → u ∈ p.inBoundary) ∧
    Adjacent (fun a b : UnitM N => a = b ∨ a.name ∈ predsOf p b.name) ((ctx p prog tbl stalled).visited i t) := by
  obtain ⟨E, hE⟩ := Diagram_routed hwf h
  exact hE.visited_walk i t

end ProcSim
