import ProcSim.Lemmas.SimCore
import ProcSim.Lemmas.LoaderGraph
/-!
# Issue phase (`_fill_inputs`): lemmas for C06

1. `sortedInputs` is sorted by name (under `Loader.StrictTotal`, the order hypotheses on `<` of the name type).
2. The threaded memory flag is *exact*: after the moves, and after every single issue, the flag is set iff some
   instruction has entered (w.r.t. the previous record) a unit whose ACL names its capability (`MemIff`). The
   direction "flag set ⇒ the entry is still there" needs the sink-first order (`orderOK`): an instruction moved into
   a destination is not moved on in the same cycle.
3. The issue loop: for every instruction issued in a cycle, the state "at its turn" can be read off the final record
   (everything hosted at `i`'s turn has a program index `< i`, everything appended later an index `≥ i`): `usableP`.
4. `CycleFacts` — what one cycle does to `entered` and to the input ports — and its lifting to diagrams (`DiagFacts`,
   `Diagram_issueFacts`).
5. Reading the diagram: `positions`, `firstCycle`, `issued`, `enteredCount`, `issuedBy` in terms of the `entered`
   counters.
-/
namespace ProcSim
open Spec

attribute [local implicit_reducible] AMap

/-! ## 1. Order on names

The order hypothesis on the name type is `Loader.StrictTotal` of `Lemmas/LoaderGraph.lean` (irreflexive, transitive,
trichotomous `<`; instances `Loader.StrictTotal.string`, `Loader.StrictTotal.nat`). -/

variable {N : Type} [DecidableEq N]

section sortedInputs
variable [LT N] [DecidableRel (α := N) (· < ·)]

omit [DecidableEq N] in
/-- the input ports are tried in the order of their names -/
theorem sortedInputs_pairwise (ho : Loader.StrictTotal N) (p : Proc N) :
    (sortedInputs p).Pairwise (fun a b => ¬ b.name < a.name) := by
  have := Loader.isort_sorted (le := fun (a b : UnitM N) => decide ¬ (b.name < a.name))
    (by
      intro x y
      simp only [decide_eq_true_eq]
      by_cases h : y.name < x.name
      · exact Or.inr (fun h' => ho.irrefl _ (ho.trans _ _ _ h h'))
      · exact Or.inl h)
    (by
      intro x y z
      simp only [decide_eq_true_eq]
      intro hxy hyz hzx
      rcases ho.tri y.name x.name with h | h | h
      · exact hxy h
      · rw [h] at hyz; exact hyz hzx
      · exact hyz (ho.trans _ _ _ hzx h))
    p.inBoundary
  exact this.imp (fun h => by simpa using h)

omit [DecidableEq N] in
/-- a port whose name is smaller than that of `port` is tried before `port` -/
theorem mem_pre_of_name_lt (ho : Loader.StrictTotal N) {p : Proc N} {pre post : List (UnitM N)} {port u : UnitM N}
    (hs : sortedInputs p = pre ++ port :: post) (hu : u ∈ p.inBoundary) (hlt : u.name < port.name) : u ∈ pre := by
  have hsorted := sortedInputs_pairwise ho p
  rw [hs] at hsorted
  have hu' : u ∈ pre ++ port :: post := by rw [← hs]; exact mem_sortedInputs.2 hu
  rcases List.mem_append.1 hu' with h | h
  · exact h
  · exfalso
    rcases List.mem_cons.1 h with e | e
    · subst e; exact ho.irrefl _ hlt
    · have := (List.pairwise_append.1 hsorted).2.1
      exact (List.pairwise_cons.1 this).1 u e hlt

end sortedInputs

/-! ## 2. The memory flag is exact -/

section order
omit [DecidableEq N] in
theorem dests_names_nodup {p : Proc N} (hn : (p.allUnits.map (·.name)).Nodup) :
    (p.dests.map (·.model.name)).Nodup := by
  have e : p.allUnits.map (·.name) =
      (p.inPorts.map (·.name) ++ p.inOut.map (·.name)) ++ p.dests.map (·.model.name) := by
    simp [Proc.allUnits, Proc.dests, List.map_append, List.map_map, Function.comp_def]
  rw [e] at hn
  exact (List.nodup_append.1 hn).2.1

theorem findIdx?_split_self {α β : Type} [DecidableEq β] (f : α → β) {done rest : List α} {d : α}
    (hnd : ((done ++ d :: rest).map f).Nodup) :
    (done ++ d :: rest).findIdx? (fun x => decide (f x = f d)) = some done.length := by
  rw [List.map_append, List.nodup_append] at hnd
  have hnone : done.findIdx? (fun x => decide (f x = f d)) = none := by
    rw [List.findIdx?_eq_none_iff]
    intro x hx
    simp only [decide_eq_false_iff_not]
    exact hnd.2.2 (f x) (List.mem_map.2 ⟨x, hx, rfl⟩) (f d) (by simp)
  rw [List.findIdx?_append, hnone, List.findIdx?_cons]
  simp

theorem findIdx?_split_before {α β : Type} [DecidableEq β] (f : α → β) {done rest : List α} {d d0 : α}
    (hd0 : d0 ∈ done) :
    ∃ k, k < done.length ∧ (done ++ d :: rest).findIdx? (fun x => decide (f x = f d0)) = some k := by
  cases h : done.findIdx? (fun x => decide (f x = f d0)) with
  | none =>
    rw [List.findIdx?_eq_none_iff] at h
    have := h d0 hd0
    simp at this
  | some k =>
    refine ⟨k, ?_, ?_⟩
    · obtain ⟨hk, _⟩ := List.findIdx?_eq_some_iff_getElem.1 h
      exact hk
    · rw [List.findIdx?_append, h]; rfl

/-- sink-first order: a destination processed earlier is not a predecessor of one processed later -/
theorem not_pred_of_before {p : Proc N} (hord : orderOK p = true) (hnd : (p.dests.map (·.model.name)).Nodup)
    {done rest : List (FuncU N)} {d d0 : FuncU N} (hs : p.dests = done ++ d :: rest) (hd0 : d0 ∈ done) :
    d0.model.name ∉ d.preds := by
  intro hq
  have hd : d ∈ p.dests := by rw [hs]; simp
  obtain ⟨k, hk, hk0⟩ := findIdx?_split_before (fun x : FuncU N => x.model.name) (d := d) (rest := rest) hd0
  have hpos0 : destPos p d0.model.name = some k := by unfold destPos; rw [hs]; exact hk0
  obtain ⟨kd, hkd, hlt⟩ := (orderOK_pred hord hd hq).2.2 k hpos0
  have hposd : destPos p d.model.name = some done.length := by
    unfold destPos; rw [hs]; exact findIdx?_split_self (fun x : FuncU N => x.model.name) (hs ▸ hnd)
  rw [hposd] at hkd
  cases hkd
  omega

/-- program indices hosted by unit `n`, in the order of the record -/
def unitIdx (u : Util N) (n : N) : List Nat := (u.get n).map (·.idx)

/-- some instruction has entered (w.r.t. the record `old`) a unit whose ACL names its capability -/
def memWit (prog : List (Instr N)) (units : List (UnitM N)) (old u : Util N) : Prop :=
  ∃ m ∈ units, ∃ k ∈ unitIdx u m.name, k ∉ unitIdx old m.name ∧ capIn prog k m.acl = true

/-- the same, among the instructions with program index `< j` -/
def memWitLt (prog : List (Instr N)) (units : List (UnitM N)) (old u : Util N) (j : Nat) : Prop :=
  ∃ m ∈ units, ∃ k ∈ (unitIdx u m.name).filter (fun k => decide (k < j)), k ∉ unitIdx old m.name ∧ capIn prog k m.acl = true

/-- the threaded memory flag is exact -/
def MemIff (prog : List (Instr N)) (units : List (UnitM N)) (old u : Util N) (mem : Bool) : Prop :=
  mem = true ↔ memWit prog units old u

/-- positional invariant principle for `fillDests`: the invariant knows which destinations are done -/
theorem fillDests_induction_pos (prog : List (Instr N)) (P : List (FuncU N) → Util N → Bool → Prop)
    (all : List (FuncU N))
    (hstep : ∀ done d rest u mem, all = done ++ d :: rest → P done u mem →
      P (done ++ [d]) (fillUnit prog d u mem).1 (fillUnit prog d u mem).2) :
    ∀ (ds done : List (FuncU N)) (u : Util N) (mem : Bool), all = done ++ ds → P done u mem →
      P all (fillDests prog ds u mem).1 (fillDests prog ds u mem).2 := by
  intro ds
  induction ds with
  | nil =>
    intro done u mem hall h
    rw [List.append_nil] at hall
    rw [hall]; exact h
  | cons d ds ih =>
    intro done u mem hall h
    unfold fillDests
    exact ih (done ++ [d]) _ _ (by rw [hall]; simp) (hstep done d ds u mem hall h)

/-- what is known in the middle of the moves, `done` being the destinations already filled -/
structure MovInv (p : Proc N) (prog : List (Instr N)) (old : Util N) (done : List (FuncU N)) (u : Util N)
    (mem : Bool) : Prop where
  /-- a unit not yet filled has only lost instructions -/
  untouched : ∀ n, n ∉ done.map (·.model.name) → (u.get n).Sublist (old.get n)
  /-- flag set ⇒ a memory entry sits in a filled destination -/
  wit : mem = true → ∃ d ∈ done, ∃ k ∈ unitIdx u d.model.name, k ∉ unitIdx old d.model.name ∧
    capIn prog k d.model.acl = true
  /-- a memory entry anywhere ⇒ flag set -/
  conv : ∀ m ∈ p.allUnits, ∀ k ∈ unitIdx u m.name, k ∉ unitIdx old m.name → capIn prog k m.acl = true → mem = true

theorem MovInv.init (p : Proc N) (prog : List (Instr N)) (old : Util N) :
    MovInv p prog old [] (flushOutputs p.outBoundary old) false := by
  refine ⟨fun n _ => flushOutputs_get_sublist _ _ _, fun h => (by cases h), ?_⟩
  intro m _ k hk hnk _
  exact absurd (((flushOutputs_get_sublist p.outBoundary old m.name).map _).subset hk) hnk

theorem MovInv.step {p : Proc N} {prog : List (Instr N)} {old : Util N} (hn : (p.allUnits.map (·.name)).Nodup)
    (hord : orderOK p = true) (hold : RowND old)
    {done rest : List (FuncU N)} {d : FuncU N} {u : Util N} {mem : Bool}
    (hs : p.dests = done ++ d :: rest) (h : MovInv p prog old done u mem) :
    MovInv p prog old (done ++ [d]) (fillUnit prog d u mem).1 (fillUnit prog d u mem).2 := by
  have hnd := dests_names_nodup hn
  have hd : d ∈ p.dests := by rw [hs]; simp
  have hself : d.model.name ∉ d.preds := orderOK_self_not_pred hord hd
  have hne : ∀ d0 ∈ done, d.model.name ≠ d0.model.name := by
    intro d0 hd0 e
    rw [hs, List.map_append, List.nodup_append] at hnd
    exact hnd.2.2 _ (List.mem_map.2 ⟨d0, hd0, rfl⟩) _ (by simp) e.symm
  refine ⟨?_, ?_, ?_⟩
  · intro n hn'
    simp only [List.map_append, List.map_cons, List.map_nil, List.mem_append, List.mem_singleton, not_or] at hn'
    have := fillUnit_get_sublist prog d u mem n
    rw [if_neg (fun e => hn'.2 e.symm)] at this
    exact this.trans (h.untouched n hn'.1)
  · intro hm
    rw [fillUnit_snd] at hm
    by_cases hmem : mem = true
    · obtain ⟨d0, hd0, k, hk, hk1, hk2⟩ := h.wit hmem
      refine ⟨d0, List.mem_append_left _ hd0, k, ?_, hk1, hk2⟩
      unfold unitIdx
      rw [fillUnit_get_of_not_involved prog d u mem (hne d0 hd0) (not_pred_of_before hord hnd hs hd0)]
      exact hk
    · rw [Bool.not_eq_true] at hmem
      have hm' := hm
      rw [hmem, Bool.false_or, List.any_eq_true] at hm'
      obtain ⟨c, hc, hcap⟩ := hm'
      rw [← hmem] at hc
      refine ⟨d, by simp, c.2, ?_, ?_, hcap⟩
      · unfold unitIdx
        rw [fillUnit_get_self prog d u mem hself, List.map_append, List.mem_append]
        right
        rw [List.map_map]
        exact List.mem_map.2 ⟨c, hc, rfl⟩
      · intro hin
        obtain ⟨hc1, hc2⟩ := unitTaken_idx_mem hc
        have hnot : c.1 ∉ done.map (·.model.name) := by
          intro hmem'
          obtain ⟨d0, hd0, e⟩ := List.mem_map.1 hmem'
          exact not_pred_of_before hord hnd hs hd0 (e ▸ hc1)
        have hold' : c.2 ∈ (old.get c.1).map (·.idx) := ((h.untouched c.1 hnot).map _).subset hc2
        have := hold.unique_host c.1 d.model.name c.2 hold' hin
        exact hself (this ▸ hc1)
  · intro m hm k hk hnk hcap
    rw [fillUnit_snd]
    have hsub := ((fillUnit_get_sublist prog d u mem m.name).map (·.idx)).subset hk
    by_cases hold' : k ∈ unitIdx u m.name
    · rw [h.conv m hm k hold' hnk hcap]; rfl
    · by_cases hdm : d.model.name = m.name
      · rw [if_pos hdm, List.map_append, List.mem_append] at hsub
        rcases hsub with hsub | hsub
        · exact absurd hsub hold'
        · rw [List.map_map] at hsub
          obtain ⟨c, hc, rfl⟩ := List.mem_map.1 hsub
          have : d.model = m := unit_eq_of_name_eq hn (model_mem_allUnits_of_mem_dests hd) hm hdm
          subst this
          have : (unitTaken prog d u mem).any (fun c => capIn prog c.2 d.model.acl) = true :=
            List.any_eq_true.2 ⟨c, hc, hcap⟩
          rw [this, Bool.or_true]
      · rw [if_neg hdm] at hsub
        exact absurd hsub hold'

/-- **the flag after the moves is exact** (needs the sink-first order) -/
theorem moveFlights_memIff {p : Proc N} (prog : List (Instr N)) {old : Util N}
    (hn : (p.allUnits.map (·.name)).Nodup) (hord : orderOK p = true) (hold : RowND old) :
    MemIff prog p.allUnits old (moveFlights p prog old).1 (moveFlights p prog old).2 := by
  have h := fillDests_induction_pos prog (MovInv p prog old) p.dests
    (fun done d rest u mem hs hinv => hinv.step hn hord hold hs)
    p.dests [] (flushOutputs p.outBoundary old) false rfl (MovInv.init p prog old)
  constructor
  · intro hm
    obtain ⟨d, hd, k, hk, hk1, hk2⟩ := h.wit hm
    exact ⟨d.model, model_mem_allUnits_of_mem_dests hd, k, hk, hk1, hk2⟩
  · rintro ⟨m, hm, k, hk, hk1, hk2⟩
    exact h.conv m hm k hk hk1 hk2

end order

/-! ## 3. The issue loop -/

section issue

/-- number of instructions with program index `< i` hosted by `n` -/
def cntLt (u : Util N) (n : N) (i : Nat) : Nat := ((unitIdx u n).filter (fun k => decide (k < i))).length

/-- Port `q` was usable for instruction `i` at its turn, read off a record `u` in which later issues (of indices
`≥ i`) may already be present: `q` supports the capability, it is not the case that `q` needs the memory port for it
while an entry of index `< i` holds it, and the instructions of index `< i` do not fill `q`. -/
def usableP (prog : List (Instr N)) (units : List (UnitM N)) (old u : Util N) (i : Nat) (q : UnitM N) : Prop :=
  capIn prog i q.caps = true ∧ ¬ (capIn prog i q.acl = true ∧ memWitLt prog units old u i) ∧ cntLt u q.name i ≠ q.width

theorem memWitLt_congr {prog : List (Instr N)} {units : List (UnitM N)} {old u u' : Util N} {i : Nat}
    (h : ∀ n, (unitIdx u' n).filter (fun k => decide (k < i)) = (unitIdx u n).filter (fun k => decide (k < i))) :
    memWitLt prog units old u' i ↔ memWitLt prog units old u i := by
  simp only [memWitLt, h]

/-- `usableP … i` depends only on the hosted indices `< i` -/
theorem usableP_congr {prog : List (Instr N)} {units : List (UnitM N)} {old u u' : Util N} {i : Nat}
    (h : ∀ n, (unitIdx u' n).filter (fun k => decide (k < i)) = (unitIdx u n).filter (fun k => decide (k < i)))
    (q : UnitM N) : usableP prog units old u' i q ↔ usableP prog units old u i q := by
  simp only [usableP, memWitLt_congr h, cntLt, h]

theorem usableP_congr_idx {prog : List (Instr N)} {units : List (UnitM N)} {old u u' : Util N} {i : Nat}
    (h : ∀ n, unitIdx u' n = unitIdx u n) (q : UnitM N) :
    usableP prog units old u' i q ↔ usableP prog units old u i q :=
  usableP_congr (fun n => by rw [h n]) q

theorem filter_lt_eq_self {l : List Nat} {e : Nat} (h : ∀ k ∈ l, k < e) : l.filter (fun k => decide (k < e)) = l :=
  List.filter_eq_self.2 (fun k hk => by simpa using h k hk)

theorem unitIdx_issue (u : Util N) (pn n : N) (e : Nat) :
    unitIdx (u.set pn (u.get pn ++ [⟨e, .U⟩])) n = if pn = n then unitIdx u n ++ [e] else unitIdx u n := by
  unfold unitIdx
  rw [Util.get_set]
  split
  · next h => subst h; simp
  · rfl

theorem filter_lt_unitIdx_issue (u : Util N) (pn n : N) {e i : Nat} (hi : i ≤ e) :
    (unitIdx (u.set pn (u.get pn ++ [⟨e, .U⟩])) n).filter (fun k => decide (k < i)) =
      (unitIdx u n).filter (fun k => decide (k < i)) := by
  rw [unitIdx_issue]
  split
  · have : ¬ e < i := by omega
    simp [List.filter_append, this]
  · rfl

/-- at the turn of instruction `e` (all hosted indices `< e`, flag exact), `usableP` read off any later record is
`portUsable` of the model -/
theorem usableP_iff_portUsable {prog : List (Instr N)} {units : List (UnitM N)} {old u u' : Util N} {mem : Bool}
    {e : Nat} {ins : Instr N} (hmem : MemIff prog units old u mem) (hins : prog[e]? = some ins)
    (h' : ∀ n, (unitIdx u' n).filter (fun k => decide (k < e)) = unitIdx u n) (q : UnitM N) :
    usableP prog units old u' e q ↔ portUsable ins.cap u mem q := by
  have hcap : ∀ l : List N, capIn prog e l = decide (ins.cap ∈ l) := by intro l; simp [capIn, hins]
  have hw : memWitLt prog units old u' e ↔ mem = true := by
    unfold MemIff at hmem
    rw [hmem]; simp only [memWitLt, memWit, h']
  have hc : cntLt u' q.name e = (u.get q.name).length := by
    unfold cntLt; rw [h']; simp [unitIdx]
  unfold usableP portUsable
  rw [hcap, hcap, hw, hc]
  simp only [decide_eq_true_eq]
  cases mem <;> by_cases ha : ins.cap ∈ q.acl <;> simp [ha]

variable [LT N] [DecidableRel (α := N) (· < ·)]

/-- the facts about the turn of instruction `i`, read off record `u` -/
def TurnFacts (p : Proc N) (prog : List (Instr N)) (old u : Util N) (i : Nat) : Prop :=
  ∃ pre port post, sortedInputs p = pre ++ port :: post ∧ i ∈ unitIdx u port.name ∧
    usableP prog p.allUnits old u i port ∧ ∀ q ∈ pre, ¬ usableP prog p.allUnits old u i q

theorem TurnFacts.congr {p : Proc N} {prog : List (Instr N)} {old u u' : Util N} {i : Nat}
    (h : ∀ n, (unitIdx u' n).filter (fun k => decide (k < i)) = (unitIdx u n).filter (fun k => decide (k < i)))
    (hmem : ∀ n, i ∈ unitIdx u n → i ∈ unitIdx u' n)
    (ht : TurnFacts p prog old u i) : TurnFacts p prog old u' i := by
  obtain ⟨pre, port, post, hs, hi, hu, hpre⟩ := ht
  exact ⟨pre, port, post, hs, hmem _ hi, (usableP_congr h port).2 hu,
    fun q hq hq' => hpre q hq ((usableP_congr h q).1 hq')⟩

/-- invariant of the issue loop -/
structure IssInv (p : Proc N) (prog : List (Instr N)) (old : Util N) (e0 : Nat) (u : Util N) (mem : Bool) (e : Nat) :
    Prop where
  ge : e0 ≤ e
  base : RowBase p e u
  memIff : MemIff prog p.allUnits old u mem
  turns : ∀ i, e0 ≤ i → i < e → TurnFacts p prog old u i

theorem IssInv.init {p : Proc N} {prog : List (Instr N)} {old : Util N} {e0 : Nat}
    (hn : (p.allUnits.map (·.name)).Nodup) (hord : orderOK p = true) (hb : RowBase p e0 old) (hnd : RowND old) :
    IssInv p prog old e0 (moveFlights p prog old).1 (moveFlights p prog old).2 e0 := by
  refine ⟨Nat.le_refl _, ?_, moveFlights_memIff prog hn hord hnd, fun i h1 h2 => by omega⟩
  exact moveFlights_induction p prog (fun u _ => RowBase p e0 u) old (hb.after_flush _)
    (fun d hd u mem hu => hu.after_fillUnit hn prog hd mem)

theorem IssInv.step {p : Proc N} {prog : List (Instr N)} {old : Util N} {e0 : Nat}
    (hn : (p.allUnits.map (·.name)).Nodup) (hb : RowBase p e0 old)
    {u : Util N} {mem : Bool} {e : Nat} {ins : Instr N} {pre post : List (UnitM N)} {port : UnitM N}
    (h : IssInv p prog old e0 u mem e) (hins : prog[e]? = some ins) (hs : sortedInputs p = pre ++ port :: post)
    (hu : portUsable ins.cap u mem port) (hpre : ∀ q ∈ pre, ¬ portUsable ins.cap u mem q) :
    IssInv p prog old e0 (u.set port.name (u.get port.name ++ [⟨e, .U⟩])) (mem || decide (ins.cap ∈ port.acl))
      (e + 1) := by
  have hport : port ∈ p.allUnits :=
    mem_allUnits_of_mem_inBoundary (mem_sortedInputs.1 (by rw [hs]; simp))
  have hfresh : ∀ n, e ∉ unitIdx u n := by
    intro n hm
    obtain ⟨x, hx, e1⟩ := List.mem_map.1 hm
    have := h.base.idx_lt n x hx
    omega
  have hfresh_old : ∀ n, e ∉ unitIdx old n := by
    intro n hm
    obtain ⟨x, hx, e1⟩ := List.mem_map.1 hm
    have := hb.idx_lt n x hx
    have := h.ge
    omega
  have hcap : capIn prog e port.acl = decide (ins.cap ∈ port.acl) := by simp [capIn, hins]
  have hturn : ∀ n, (unitIdx (u.set port.name (u.get port.name ++ [⟨e, .U⟩])) n).filter (fun k => decide (k < e)) =
      unitIdx u n := by
    intro n
    rw [filter_lt_unitIdx_issue u port.name n (Nat.le_refl e)]
    apply filter_lt_eq_self
    intro k hk
    obtain ⟨x, hx, e1⟩ := List.mem_map.1 hk
    rw [← e1]; exact h.base.idx_lt n x hx
  refine ⟨by have := h.ge; omega, h.base.after_issue hn hport hu.2.2, ?_, ?_⟩
  · constructor
    · intro hm
      by_cases hmem : mem = true
      · obtain ⟨m, hm1, k, hk, hk1, hk2⟩ := h.memIff.1 hmem
        refine ⟨m, hm1, k, ?_, hk1, hk2⟩
        rw [unitIdx_issue]; split
        · exact List.mem_append_left _ hk
        · exact hk
      · rw [Bool.not_eq_true] at hmem
        rw [hmem, Bool.false_or] at hm
        refine ⟨port, hport, e, ?_, hfresh_old _, by rw [hcap]; exact hm⟩
        rw [unitIdx_issue, if_pos rfl]; simp
    · rintro ⟨m, hm1, k, hk, hk1, hk2⟩
      rw [unitIdx_issue] at hk
      by_cases hold : k ∈ unitIdx u m.name
      · rw [h.memIff.2 ⟨m, hm1, k, hold, hk1, hk2⟩]; rfl
      · by_cases hpm : port.name = m.name
        · rw [if_pos hpm, List.mem_append] at hk
          rcases hk with hk | hk
          · exact absurd hk hold
          · simp only [List.mem_singleton] at hk
            subst hk
            have : port = m := unit_eq_of_name_eq hn hport hm1 hpm
            subst this
            rw [hcap] at hk2
            rw [hk2, Bool.or_true]
        · rw [if_neg hpm] at hk
          exact absurd hk hold
  · intro i hi0 hi
    by_cases hie : i < e
    · refine (h.turns i hi0 hie).congr (fun n => filter_lt_unitIdx_issue u port.name n (by omega)) ?_
      intro n hin
      rw [unitIdx_issue]; split
      · exact List.mem_append_left _ hin
      · exact hin
    · have : i = e := by omega
      subst this
      refine ⟨pre, port, post, hs, ?_, (usableP_iff_portUsable h.memIff hins hturn port).2 hu, ?_⟩
      · rw [unitIdx_issue, if_pos rfl]; simp
      · intro q hq hq'
        exact hpre q hq ((usableP_iff_portUsable h.memIff hins hturn q).1 hq')

/-- **the fill phase of a cycle, seen from the issue side** -/
theorem fillCycle_issInv {p : Proc N} (prog : List (Instr N)) {old : Util N} {e0 : Nat}
    (hn : (p.allUnits.map (·.name)).Nodup) (hord : orderOK p = true) (hb : RowBase p e0 old) (hnd : RowND old) :
    ∃ mem', IssInv p prog old e0 (fillCycle p prog old e0).1 mem' (fillCycle p prog old e0).2 ∧
      ∀ ins, prog[(fillCycle p prog old e0).2]? = some ins → ∀ q ∈ p.inBoundary,
        ¬ usableP prog p.allUnits old (fillCycle p prog old e0).1 (fillCycle p prog old e0).2 q := by
  obtain ⟨mem', h1, h2⟩ := issueLoop_induction prog (sortedInputs p) (IssInv p prog old e0)
    (fun u mem e ins pre port post hP hins hs hu hpre => hP.step hn hb hins hs hu hpre)
    (moveFlights p prog old).1 (moveFlights p prog old).2 e0 (IssInv.init hn hord hb hnd)
  refine ⟨mem', h1, ?_⟩
  intro ins hins q hq hq'
  have hnone := tryPorts_eq_none_iff.1 (h2 ins hins) q (mem_sortedInputs.2 hq)
  apply hnone
  refine (usableP_iff_portUsable h1.memIff hins ?_ q).1 hq'
  intro n
  apply filter_lt_eq_self
  intro k hk
  obtain ⟨x, hx, e1⟩ := List.mem_map.1 hk
  rw [← e1]; exact h1.base.idx_lt n x hx

end issue

/-! ## 4. One cycle, and diagrams -/

section diag
variable [LT N] [DecidableRel (α := N) (· < ·)]

/-- What a successful cycle does, seen from the issue side: `old`/`new` are the previous and the new record, `e0`/`e1`
the values of `entered` before and after. -/
structure CycleFacts (p : Proc N) (prog : List (Instr N)) (old : Util N) (e0 : Nat) (new : Util N) (e1 : Nat) :
    Prop where
  oldBase : RowBase p e0 old
  newBase : RowBase p e1 new
  newND : RowND new
  ge : e0 ≤ e1
  le : e1 ≤ prog.length
  /-- instructions `e0 … e1-1` were issued, each into the first usable port -/
  turns : ∀ i, e0 ≤ i → i < e1 → TurnFacts p prog old new i
  /-- the next instruction (if any) found no usable port -/
  blocked : ∀ ins, prog[e1]? = some ins → ∀ q ∈ p.inBoundary, ¬ usableP prog p.allUnits old new e1 q

theorem runCycle_cycleFacts {p : Proc N} {prog : List (Instr N)} (hwf : wfProc p = true) {s s' : SimState N}
    (h : CoreInv p prog s) (hs : runCycle p prog s = .ok (some s')) :
    CycleFacts p prog s.util s.entered s'.util s'.entered := by
  have h' := h.step_wf hwf hs
  have hn := wfProc_nodup_names hwf
  obtain ⟨mem', hI, hblk⟩ := fillCycle_issInv prog hn (wfProc_orderOK hwf) h.row h.nd
  obtain ⟨lab, qs, hlab, _, _, rfl⟩ := runCycle_eq_some hs
  have hidx : ∀ n, unitIdx lab.1 n = unitIdx (fillCycle p prog s.util s.entered).1 n :=
    fun n => labelAll_get_idx hlab n
  refine ⟨h.row, h'.row, h'.nd, fillCycle_entered_ge _ _ _ _, h'.entered_le, ?_, ?_⟩
  · intro i hi0 hi1
    exact (hI.turns i hi0 hi1).congr (fun n => by rw [hidx]) (fun n hin => by rw [hidx]; exact hin)
  · intro ins hins q hq hq'
    exact hblk ins hins q hq ((usableP_congr_idx hidx q).1 hq')

omit [DecidableEq N] [LT N] [DecidableRel (α := N) (· < ·)] in
theorem getD_append_lt (l : List (Util N)) (x : Util N) {t : Nat} (ht : t < l.length) :
    (l ++ [x]).getD t ([] : List (N × List HI)) = l.getD t ([] : List (N × List HI)) := by
  rw [List.getD_eq_getElem?_getD, List.getD_eq_getElem?_getD, List.getElem?_append_left ht]

omit [DecidableEq N] [LT N] [DecidableRel (α := N) (· < ·)] in
theorem getD_append_length (l : List (Util N)) (x : Util N) :
    (l ++ [x]).getD l.length ([] : List (N × List HI)) = x := by
  rw [List.getD_eq_getElem?_getD, List.getElem?_append_right (Nat.le_refl _)]; simp

omit [DecidableEq N] [LT N] [DecidableRel (α := N) (· < ·)] in
theorem prevRow_append_le (l : List (Util N)) (x : Util N) {t : Nat} (ht : t ≤ l.length) :
    prevRow (l ++ [x]) t = prevRow l t := by
  unfold prevRow
  by_cases h0 : t = 0
  · simp [h0]
  · rw [if_neg h0, if_neg h0]
    exact getD_append_lt l x (by omega)

omit [DecidableEq N] [LT N] [DecidableRel (α := N) (· < ·)] in
theorem prevRow_reverse_length (table : List (Util N)) :
    prevRow table.reverse table.length = table.head?.getD ([] : List (N × List HI)) := by
  unfold prevRow
  cases table with
  | nil => simp
  | cons r rest =>
    have : (r :: rest).length - 1 = rest.reverse.length := by simp
    rw [if_neg (by simp), List.reverse_cons, this, getD_append_length]
    simp

/-- the `entered` counters `E 0 = 0, E 1, …` of a diagram, with the facts of every recorded cycle -/
def DiagFacts (p : Proc N) (prog : List (Instr N)) (tbl : List (Util N)) (E : Nat → Nat) : Prop :=
  E 0 = 0 ∧ ∀ t, t < tbl.length →
    CycleFacts p prog (prevRow tbl t) (E t) (tbl.getD t ([] : List (N × List HI))) (E (t + 1))

/-- **Every diagram of a well-formed processor comes with its `entered` counters.** -/
theorem Diagram_issueFacts {p : Proc N} {prog : List (Instr N)} (hwf : wfProc p = true)
    {tbl : List (Util N)} {stalled : Bool} (h : Diagram p prog tbl stalled) :
    ∃ E, DiagFacts p prog tbl E ∧ E tbl.length ≤ prog.length := by
  obtain ⟨s, ⟨hc, E, hE, hD⟩, rfl, _⟩ := simulate_induction (p := p) (prog := prog)
    (fun s => CoreInv p prog s ∧ ∃ E : Nat → Nat, E s.table.length = s.entered ∧ DiagFacts p prog s.table.reverse E)
    ⟨CoreInv.init p prog, fun _ => 0, rfl, rfl, fun t ht => by simp [initState] at ht⟩
    (by
      rintro s s' ⟨hc, E, hE, hD0, hD⟩ hr
      refine ⟨hc.step_wf hwf hr, ?_⟩
      have hcf := runCycle_cycleFacts hwf hc hr
      obtain ⟨lab, qs, _, _, _, rfl⟩ := runCycle_eq_some hr
      simp only at hcf ⊢
      refine ⟨fun t => if t ≤ s.table.length then E t else (fillCycle p prog s.util s.entered).2, ?_, ?_, ?_⟩
      · simp only [List.length_cons]; rw [if_neg (by omega)]
      · simp [hD0]
      · intro t ht
        simp only [List.reverse_cons, List.length_append, List.length_reverse, List.length_cons, List.length_nil] at ht
        rw [List.reverse_cons, prevRow_append_le _ _ (by simp; omega)]
        dsimp only
        by_cases hlt : t < s.table.length
        · rw [getD_append_lt _ _ (by simpa using hlt), if_pos (by omega), if_pos (by omega)]
          exact hD t (by simpa using hlt)
        · have : t = s.table.length := by omega
          subst this
          have e1 : (s.table.reverse ++ [lab.1]).getD s.table.length ([] : List (N × List HI)) = lab.1 := by
            have := getD_append_length s.table.reverse lab.1
            rwa [List.length_reverse] at this
          rw [e1, prevRow_reverse_length, ← hc.util_eq, if_pos (Nat.le_refl _), if_neg (by omega), hE]
          exact hcf)
    tbl stalled h
  refine ⟨E, hD, ?_⟩
  rw [List.length_reverse, hE]
  exact hc.entered_le

end diag

/-! ## 5. Reading a diagram -/

section reading
omit [DecidableEq N] in
theorem range_split {T a : Nat} {l₁ l₂ : List Nat} (h : List.range T = l₁ ++ a :: l₂) :
    a = l₁.length ∧ a < T ∧ ∀ b, b < a → b ∈ l₁ := by
  have hlen : l₁.length < T := by
    have := congrArg List.length h
    simp at this; omega
  have ha : a = l₁.length := by
    have h1 : (List.range T)[l₁.length]? = some l₁.length := by simp [hlen]
    rw [h, List.getElem?_append_right (Nat.le_refl _)] at h1
    simpa using h1
  refine ⟨ha, ha ▸ hlen, ?_⟩
  intro b hb
  have hb' : b < l₁.length := ha ▸ hb
  have h1 : (List.range T)[b]? = some b := List.getElem?_range (by omega)
  rw [h, List.getElem?_append_left hb'] at h1
  exact List.mem_of_getElem? h1

theorem isIn_iff (c : Ctx N) (t : Nat) (n : N) (k : Nat) : c.isIn t n k = true ↔ k ∈ unitIdx (c.row t) n := by
  simp [Ctx.isIn, Ctx.occ, unitIdx]

theorem entersAt_iff (c : Ctx N) (t : Nat) (n : N) (k : Nat) :
    c.entersAt t n k = true ↔ k ∈ unitIdx (c.row t) n ∧ k ∉ unitIdx (prevRow c.tbl t) n := by
  unfold Ctx.entersAt
  rw [Bool.and_eq_true, isIn_iff]
  by_cases ht : t = 0
  · subst ht; simp [prevRow, unitIdx]
  · have e : c.row (t - 1) = prevRow c.tbl t := by simp [Ctx.row, prevRow, ht]
    have hiff := isIn_iff c (t - 1) n k
    rw [e] at hiff
    cases hb : c.isIn (t - 1) n k
    · have : k ∉ unitIdx (prevRow c.tbl t) n := fun hk => by rw [hiff.2 hk] at hb; cases hb
      simp [this]
    · have : k ∈ unitIdx (prevRow c.tbl t) n := hiff.1 hb
      simp [this, ht]

/-- the positions of instruction `i` in cycle `t` -/
def posChunk (c : Ctx N) (i t : Nat) : List (Nat × UnitM N × Stall) :=
  c.units.flatMap (fun u => ((c.occ t u.name).filter (fun h => h.idx == i)).map (fun h => (t, u, h.st)))

theorem positions_eq (c : Ctx N) (i : Nat) : c.positions i = (List.range c.T).flatMap (posChunk c i) := rfl

theorem mem_posChunk {c : Ctx N} {i t : Nat} {x : Nat × UnitM N × Stall} :
    x ∈ posChunk c i t ↔ x.1 = t ∧ x.2.1 ∈ c.units ∧ ∃ h ∈ c.occ t x.2.1.name, h.idx = i ∧ h.st = x.2.2 := by
  obtain ⟨a, b, s⟩ := x
  simp only [posChunk, List.mem_flatMap, List.mem_map, List.mem_filter, beq_iff_eq, Prod.mk.injEq]
  constructor
  · rintro ⟨u, hu, h, ⟨hh, hi⟩, rfl, rfl, rfl⟩
    exact ⟨rfl, hu, h, hh, hi, rfl⟩
  · rintro ⟨rfl, hu, h, hh, hi, rfl⟩
    exact ⟨b, hu, h, ⟨hh, hi⟩, rfl, rfl, rfl⟩

theorem posChunk_eq_nil {c : Ctx N} {i t : Nat} (h : ∀ u ∈ c.units, i ∉ unitIdx (c.row t) u.name) :
    posChunk c i t = [] := by
  apply List.eq_nil_iff_forall_not_mem.2
  intro x hx
  obtain ⟨_, hu, y, hy, hi, _⟩ := mem_posChunk.1 hx
  exact h _ hu (List.mem_map.2 ⟨y, hy, hi⟩)

/-- the first position of `i`: its cycle is recorded, `i` is hosted there, and in no earlier cycle -/
theorem positions_head {c : Ctx N} {i : Nat} {x : Nat × UnitM N × Stall} (h : (c.positions i).head? = some x) :
    x.1 < c.T ∧ x ∈ posChunk c i x.1 ∧ ∀ t', t' < x.1 → posChunk c i t' = [] := by
  rw [positions_eq, List.head?_flatMap, List.findSome?_eq_some_iff] at h
  obtain ⟨l₁, a, l₂, hsplit, ha, hpre⟩ := h
  obtain ⟨_, haT, hmem⟩ := range_split hsplit
  have hx : x ∈ posChunk c i a := List.mem_of_mem_head? ha
  have hxa : x.1 = a := (mem_posChunk.1 hx).1
  rw [hxa]
  refine ⟨haT, hx, ?_⟩
  intro t' ht'
  have := hpre t' (hmem t' ht')
  exact List.head?_eq_none_iff.1 this

omit [DecidableEq N] in
theorem length_filter_range_lt (n k : Nat) :
    ((List.range n).filter (fun i => decide (i < k))).length = min k n := by
  induction n with
  | zero => simp
  | succ n ih =>
    rw [List.range_succ, List.filter_append, List.length_append, ih]
    by_cases h : n < k
    · simp [h]; omega
    · simp [h]; omega

section diagReading
variable [LT N] [DecidableRel (α := N) (· < ·)]
variable {p : Proc N} {prog : List (Instr N)} {tbl : List (Util N)} {E : Nat → Nat}

theorem DiagFacts.mono (hD : DiagFacts p prog tbl E) : ∀ a b, a ≤ b → b ≤ tbl.length → E a ≤ E b := by
  intro a b hab
  induction b with
  | zero => intro _; have : a = 0 := by omega
            subst this; exact Nat.le_refl _
  | succ b ih =>
    intro hb
    by_cases h : a = b + 1
    · subst h; exact Nat.le_refl _
    · exact Nat.le_trans (ih (by omega) (by omega)) (hD.2 b (by omega)).ge

theorem DiagFacts.find (hD : DiagFacts p prog tbl E) :
    ∀ m, m ≤ tbl.length → ∀ i, i < E m → ∃ t, t < m ∧ E t ≤ i ∧ i < E (t + 1) := by
  intro m
  induction m with
  | zero => intro _ i hi; rw [hD.1] at hi; omega
  | succ m ih =>
    intro hm i hi
    by_cases h : i < E m
    · obtain ⟨t, ht, h1, h2⟩ := ih (by omega) i h
      exact ⟨t, by omega, h1, h2⟩
    · exact ⟨m, by omega, by omega, hi⟩

theorem DiagFacts.hosted_lt (hD : DiagFacts p prog tbl E) {t : Nat} (ht : t < tbl.length) {n : N} {k : Nat}
    (hk : k ∈ unitIdx (tbl.getD t ([] : List (N × List HI))) n) : k < E (t + 1) := by
  obtain ⟨x, hx, e⟩ := List.mem_map.1 hk
  rw [← e]; exact (hD.2 t ht).newBase.idx_lt n x hx

theorem DiagFacts.old_lt (hD : DiagFacts p prog tbl E) {t : Nat} (ht : t < tbl.length) {n : N} {k : Nat}
    (hk : k ∈ unitIdx (prevRow tbl t) n) : k < E t := by
  obtain ⟨x, hx, e⟩ := List.mem_map.1 hk
  rw [← e]; exact (hD.2 t ht).oldBase.idx_lt n x hx

/-- an instruction that is not issued in or before cycle `t` is not hosted in cycle `t` -/
theorem DiagFacts.posChunk_nil (hD : DiagFacts p prog tbl E) (stalled : Bool) {t i : Nat} (ht : t < tbl.length)
    (hi : E (t + 1) ≤ i) : posChunk (ctx p prog tbl stalled) i t = [] := by
  apply posChunk_eq_nil
  intro u _ hmem
  have := hD.hosted_lt ht hmem
  omega

/-- **the first position of an instruction issued in cycle `t`** is `(t, port, _)` where `port` is the first usable
input port at its turn -/
theorem DiagFacts.head_of_issued (hD : DiagFacts p prog tbl E) (hn : (p.allUnits.map (·.name)).Nodup)
    (stalled : Bool) {t i : Nat} (ht : t < tbl.length) (h0 : E t ≤ i) (h1 : i < E (t + 1)) :
    ∃ pre port post st, sortedInputs p = pre ++ port :: post ∧
      ((ctx p prog tbl stalled).positions i).head? = some (t, port, st) ∧
      usableP prog p.allUnits (prevRow tbl t) (tbl.getD t ([] : List (N × List HI))) i port ∧
      ∀ q ∈ pre, ¬ usableP prog p.allUnits (prevRow tbl t) (tbl.getD t ([] : List (N × List HI))) i q := by
  obtain ⟨pre, port, post, hs, hi, hu, hpre⟩ := (hD.2 t ht).turns i h0 h1
  have hport : port ∈ p.allUnits := mem_allUnits_of_mem_inBoundary (mem_sortedInputs.1 (by rw [hs]; simp))
  obtain ⟨y, hy, hyi⟩ := List.mem_map.1 hi
  have hchunk : (t, port, y.st) ∈ posChunk (ctx p prog tbl stalled) i t :=
    mem_posChunk.2 ⟨rfl, hport, y, hy, hyi, rfl⟩
  have hpos : (t, port, y.st) ∈ (ctx p prog tbl stalled).positions i := by
    rw [positions_eq]
    exact List.mem_flatMap.2 ⟨t, List.mem_range.2 ht, hchunk⟩
  cases hh : ((ctx p prog tbl stalled).positions i).head? with
  | none => rw [List.head?_eq_none_iff.1 hh] at hpos; cases hpos
  | some x =>
    obtain ⟨hxT, hx, hmin⟩ := positions_head hh
    have hle : x.1 ≤ t := by
      by_cases hlt : t < x.1
      · rw [hmin t hlt] at hchunk; cases hchunk
      · omega
    obtain ⟨_, hxu, z, hz, hzi, hzs⟩ := mem_posChunk.1 hx
    have hzmem : i ∈ unitIdx (tbl.getD x.1 ([] : List (N × List HI))) x.2.1.name := List.mem_map.2 ⟨z, hz, hzi⟩
    have hge : t ≤ x.1 := by
      by_cases hlt : x.1 < t
      · have h2 := hD.hosted_lt hxT hzmem
        have h3 := hD.mono (x.1 + 1) t (by omega) (by omega)
        omega
      · omega
    have hxt : x.1 = t := by omega
    obtain ⟨a, b, st⟩ := x
    simp only at hxt hzmem hxu
    subst hxt
    have hname : b.name = port.name := (hD.2 a ht).newND.unique_host _ _ i hzmem hi
    have : b = port := unit_eq_of_name_eq hn hxu hport hname
    subst this
    exact ⟨pre, b, post, st, hs, rfl, hu, hpre⟩

theorem DiagFacts.positions_nil (hD : DiagFacts p prog tbl E) (stalled : Bool) {i : Nat} (hi : E tbl.length ≤ i) :
    (ctx p prog tbl stalled).positions i = [] := by
  rw [positions_eq, List.flatMap_eq_nil_iff]
  intro t ht
  have ht' : t < tbl.length := List.mem_range.1 ht
  exact hD.posChunk_nil stalled ht' (Nat.le_trans (hD.mono (t + 1) tbl.length (by omega) (Nat.le_refl _)) hi)

theorem DiagFacts.firstCycle_eq (hD : DiagFacts p prog tbl E) (hn : (p.allUnits.map (·.name)).Nodup)
    (stalled : Bool) {t i : Nat} (ht : t < tbl.length) (h0 : E t ≤ i) (h1 : i < E (t + 1)) :
    (ctx p prog tbl stalled).firstCycle i = some t := by
  obtain ⟨pre, port, post, st, _, hh, _, _⟩ := hD.head_of_issued hn stalled ht h0 h1
  simp [Ctx.firstCycle, hh]

theorem DiagFacts.issued_eq (hD : DiagFacts p prog tbl E) (hn : (p.allUnits.map (·.name)).Nodup)
    (stalled : Bool) (i : Nat) : (ctx p prog tbl stalled).issued i = decide (i < E tbl.length) := by
  unfold Ctx.issued
  by_cases hi : i < E tbl.length
  · obtain ⟨t, ht, h0, h1⟩ := hD.find tbl.length (Nat.le_refl _) i hi
    obtain ⟨pre, port, post, st, _, hh, _, _⟩ := hD.head_of_issued hn stalled ht h0 h1
    have : (ctx p prog tbl stalled).positions i ≠ [] := by
      intro e; rw [e] at hh; cases hh
    simp [hi, this]
  · rw [hD.positions_nil stalled (by omega)]
    simp [hi]

theorem DiagFacts.enteredCount_eq (hD : DiagFacts p prog tbl E) (hn : (p.allUnits.map (·.name)).Nodup)
    (stalled : Bool) (hle : E tbl.length ≤ prog.length) :
    (ctx p prog tbl stalled).enteredCount = E tbl.length := by
  unfold Ctx.enteredCount
  rw [List.filter_congr (q := fun i => decide (i < E tbl.length)) (fun i _ => hD.issued_eq hn stalled i),
    length_filter_range_lt]
  exact Nat.min_eq_left hle

theorem DiagFacts.issuedBy_eq (hD : DiagFacts p prog tbl E) (hn : (p.allUnits.map (·.name)).Nodup)
    (stalled : Bool) (hle : E tbl.length ≤ prog.length) {t : Nat} (ht : t < tbl.length) :
    issuedBy (ctx p prog tbl stalled) t = E (t + 1) := by
  unfold issuedBy
  have hmono := hD.mono (t + 1) tbl.length (by omega) (Nat.le_refl _)
  rw [List.filter_congr (q := fun i => decide (i < E (t + 1))), length_filter_range_lt]
  · exact Nat.min_eq_left (Nat.le_trans hmono hle)
  · intro i _
    by_cases hi : i < E tbl.length
    · obtain ⟨t', ht', h0, h1⟩ := hD.find tbl.length (Nat.le_refl _) i hi
      rw [hD.firstCycle_eq hn stalled ht' h0 h1]
      simp only
      by_cases hlt : t' ≤ t
      · have := hD.mono (t' + 1) (t + 1) (by omega) (by omega)
        simp [hlt]; omega
      · have := hD.mono (t + 1) t' (by omega) (by omega)
        simp [hlt]; omega
    · have : (ctx p prog tbl stalled).firstCycle i = none := by
        simp [Ctx.firstCycle, hD.positions_nil stalled (i := i) (by omega)]
      rw [this]
      simp only
      symm; simp; omega

/-! ### the checker's view of "at `i`'s turn" -/

theorem DiagFacts.memBefore_iff (hD : DiagFacts p prog tbl E) (hn : (p.allUnits.map (·.name)).Nodup)
    (stalled : Bool) {t i : Nat} (ht : t < tbl.length) (h0 : E t ≤ i) :
    memBefore (ctx p prog tbl stalled) t i = true ↔
      memWitLt prog p.allUnits (prevRow tbl t) (tbl.getD t ([] : List (N × List HI))) i := by
  constructor
  · intro h
    unfold memBefore at h
    rw [List.any_eq_true] at h
    obtain ⟨u, hu, h⟩ := h
    rw [List.any_eq_true] at h
    obtain ⟨y, hy, h⟩ := h
    simp only [Bool.and_eq_true, Bool.or_eq_true, decide_eq_true_eq] at h
    obtain ⟨⟨⟨_, hent⟩, hmem⟩, hlast⟩ := h
    obtain ⟨hin, hout⟩ := (entersAt_iff _ _ _ _).1 hent
    have hlt : y.idx < i := by
      rcases hlast with h | h
      · by_cases hge : E t ≤ y.idx
        · have := hD.firstCycle_eq hn stalled ht hge (hD.hosted_lt ht hin)
          rw [this] at h
          simp at h
        · omega
      · exact h
    exact ⟨u, hu, y.idx, List.mem_filter.2 ⟨hin, by simpa using hlt⟩, hout, hmem⟩
  · rintro ⟨m, hm, k, hk, hk1, hk2⟩
    obtain ⟨hk0, hklt⟩ := List.mem_filter.1 hk
    have hklt : k < i := by simpa using hklt
    obtain ⟨y, hy, rfl⟩ := List.mem_map.1 hk0
    unfold memBefore
    refine List.any_eq_true.2 ⟨m, hm, List.any_eq_true.2 ⟨y, hy, ?_⟩⟩
    simp only [Bool.and_eq_true, Bool.or_eq_true, decide_eq_true_eq]
    refine ⟨⟨⟨?_, (entersAt_iff _ _ _ _).2 ⟨hk0, hk1⟩⟩, hk2⟩, Or.inr hklt⟩
    simp only [bne_iff_ne, ne_eq]
    omega

theorem DiagFacts.occAtTurn_eq (hD : DiagFacts p prog tbl E) (stalled : Bool) {t i : Nat} (ht : t < tbl.length)
    (h0 : E t ≤ i) (u : UnitM N) :
    occAtTurn (ctx p prog tbl stalled) t i u = cntLt (tbl.getD t ([] : List (N × List HI))) u.name i := by
  unfold occAtTurn cntLt unitIdx
  rw [List.filter_map, List.length_map]
  congr 1
  apply List.filter_congr
  intro y hy
  simp only [Function.comp]
  by_cases hent : (ctx p prog tbl stalled).entersAt t u.name y.idx = true
  · simp [hent]
  · have hin : y.idx ∈ unitIdx (tbl.getD t ([] : List (N × List HI))) u.name := List.mem_map.2 ⟨y, hy, rfl⟩
    have hold : y.idx ∈ unitIdx (prevRow tbl t) u.name := by
      by_cases hold : y.idx ∈ unitIdx (prevRow tbl t) u.name
      · exact hold
      · exact absurd ((entersAt_iff _ _ _ _).2 ⟨hin, hold⟩) hent
    have := hD.old_lt ht hold
    have hlt : y.idx < i := by omega
    simp [hlt]

omit [LT N] [DecidableRel (α := N) (· < ·)] in
theorem cntLt_le_length (u : Util N) (n : N) (i : Nat) : cntLt u n i ≤ (u.get n).length := by
  unfold cntLt unitIdx
  have := (List.filter_sublist (l := (u.get n).map (·.idx)) (p := fun k => decide (k < i))).length_le
  simpa using this

/-- for a unit that supports the capability, the checker's `usableAtTurn` is `usableP` -/
theorem DiagFacts.usableAtTurn_iff (hD : DiagFacts p prog tbl E) (hn : (p.allUnits.map (·.name)).Nodup)
    (stalled : Bool) {t i : Nat} (ht : t < tbl.length) (h0 : E t ≤ i) {u : UnitM N} (hu : u ∈ p.allUnits)
    (hsup : capIn prog i u.caps = true) :
    usableAtTurn (ctx p prog tbl stalled) t i u = true ↔
      usableP prog p.allUnits (prevRow tbl t) (tbl.getD t ([] : List (N × List HI))) i u := by
  have hw := (hD.2 t ht).newBase.width u hu
  have hc := cntLt_le_length (tbl.getD t ([] : List (N × List HI))) u.name i
  have hmb := hD.memBefore_iff hn stalled ht h0
  unfold usableAtTurn usableP
  rw [hD.occAtTurn_eq stalled ht h0]
  simp only [Bool.and_eq_true, decide_eq_true_eq, Bool.not_eq_true', Bool.and_eq_false_iff]
  constructor
  · rintro ⟨h1, h2⟩
    refine ⟨hsup, ?_, by omega⟩
    rintro ⟨ha, hb⟩
    rcases h2 with h2 | h2
    · exact absurd ha (by rw [show needsMem (ctx p prog tbl stalled).prog i u = capIn prog i u.acl from rfl] at h2; simp [h2])
    · rw [hmb.2 hb] at h2; cases h2
  · rintro ⟨_, h2, h3⟩
    refine ⟨by omega, ?_⟩
    by_cases ha : capIn prog i u.acl = true
    · right
      cases hb : memBefore (ctx p prog tbl stalled) t i
      · rfl
      · exact absurd ⟨ha, hmb.1 hb⟩ h2
    · left
      rw [Bool.not_eq_true] at ha
      exact ha

/-- the checker's clause for the instruction held back after cycle `t` -/
theorem DiagFacts.blocked_clause (hD : DiagFacts p prog tbl E) (stalled : Bool) {t : Nat} (ht : t < tbl.length)
    {q : UnitM N}
    (hq : ¬ usableP prog p.allUnits (prevRow tbl t) (tbl.getD t ([] : List (N × List HI))) (E (t + 1)) q) :
    (!supports (ctx p prog tbl stalled).prog (E (t + 1)) q || (ctx p prog tbl stalled).full t q ||
      (needsMem (ctx p prog tbl stalled).prog (E (t + 1)) q &&
        (ctx p prog tbl stalled).memTakenByOther t (E (t + 1)))) = true := by
  have hcnt : cntLt (tbl.getD t ([] : List (N × List HI))) q.name (E (t + 1)) =
      ((tbl.getD t ([] : List (N × List HI))).get q.name).length := by
    unfold cntLt
    rw [filter_lt_eq_self (fun k hk => hD.hosted_lt ht hk)]
    simp [unitIdx]
  by_cases h1 : capIn prog (E (t + 1)) q.caps = true
  · by_cases h3 : cntLt (tbl.getD t ([] : List (N × List HI))) q.name (E (t + 1)) = q.width
    · have : (ctx p prog tbl stalled).full t q = true := by
        unfold Ctx.full
        apply decide_eq_true
        rw [hcnt] at h3
        show q.width ≤ ((tbl.getD t ([] : List (N × List HI))).get q.name).length
        omega
      simp [this]
    · have h2 : capIn prog (E (t + 1)) q.acl = true ∧
          memWitLt prog p.allUnits (prevRow tbl t) (tbl.getD t ([] : List (N × List HI))) (E (t + 1)) := by
        by_cases h2 : capIn prog (E (t + 1)) q.acl = true ∧
          memWitLt prog p.allUnits (prevRow tbl t) (tbl.getD t ([] : List (N × List HI))) (E (t + 1))
        · exact h2
        · exact absurd ⟨h1, h2, h3⟩ hq
      obtain ⟨ha, m, hm, k, hk, hk1, hk2⟩ := h2
      obtain ⟨hk0, hklt⟩ := List.mem_filter.1 hk
      have hklt : k < E (t + 1) := by simpa using hklt
      obtain ⟨y, hy, rfl⟩ := List.mem_map.1 hk0
      have hmt : (ctx p prog tbl stalled).memTakenByOther t (E (t + 1)) = true := by
        unfold Ctx.memTakenByOther
        refine List.any_eq_true.2 ⟨m, hm, List.any_eq_true.2 ⟨y, hy, ?_⟩⟩
        simp only [Bool.and_eq_true]
        refine ⟨⟨?_, (entersAt_iff _ _ _ _).2 ⟨hk0, hk1⟩⟩, hk2⟩
        simp only [bne_iff_ne, ne_eq]
        omega
      have hnm : needsMem (ctx p prog tbl stalled).prog (E (t + 1)) q = true := ha
      simp [hmt, hnm]
  · have : supports (ctx p prog tbl stalled).prog (E (t + 1)) q = false := by
      rw [Bool.not_eq_true] at h1; exact h1
    simp [this]

end diagReading

end reading

end ProcSim





