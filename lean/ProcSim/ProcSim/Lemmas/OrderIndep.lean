import ProcSim.Model.LoaderOrder
import ProcSim.Lemmas.Isa
/-!
# Helper lemmas for C20 (independence of `set`/`frozenset` iteration order)

* `Graph.removeNodes`: removing node lists one after the other = removing the concatenation; only membership in the
  list matters (`removeNodes_removeNodes`, `removeNodes_congr`).
* `rmDeadEnds_eq`: the one-at-a-time loop either names the first original input port of the list or removes the
  whole list at once.
* `stopGraph`: the graph at the start of the round in which `chk_terminals` stops; `sameRun`: the literal loop
  (`chkTerminalsP ord`) and the model (`chkTerminals`) stop in the same round with that graph — both accept it, or
  both raise `DeadInputError` for a dead input port of it.
* `Agree R`: two `Except` results are both accepted with equal values or both rejected with `R`-related errors.
* `capRegistry_get?_perm`: the capability registry of a list with pairwise distinct folded forms is lookup-equal to
  that of any permutation; `createIsa_congr`: `_create_isa` only looks the registry up.
-/
namespace ProcSim

attribute [local implicit_reducible] AMap

namespace OrderIndep

open Loader LoaderOrder

/-! ## `Agree` -/

/-- both accepted with the same value, or both rejected with `R`-related errors -/
def Agree {ε α : Type} (R : ε → ε → Prop) : Except ε α → Except ε α → Prop
  | .ok a, .ok b => a = b
  | .error e, .error e' => R e e'
  | _, _ => False

theorem Agree.refl {ε α : Type} {R : ε → ε → Prop} (hR : ∀ e, R e e) (x : Except ε α) : Agree R x x := by
  cases x with
  | ok a => exact rfl
  | error e => exact hR e

theorem Agree.toOption_eq {ε α : Type} {R : ε → ε → Prop} {x y : Except ε α} (h : Agree R x y) :
    x.toOption = y.toOption := by
  cases x <;> cases y <;> simp_all [Agree, Except.toOption]

theorem Agree.ok_iff {ε α : Type} {R : ε → ε → Prop} {x y : Except ε α} (h : Agree R x y) (a : α) :
    x = .ok a ↔ y = .ok a := by
  cases x <;> cases y <;> simp_all [Agree]

theorem Agree.error_left {ε α : Type} {R : ε → ε → Prop} {x y : Except ε α} (h : Agree R x y) {e : ε}
    (hx : x = .error e) : ∃ e', y = .error e' ∧ R e e' := by
  subst hx
  cases y with
  | ok a => exact h.elim
  | error e' => exact ⟨e', rfl, h⟩

theorem Agree.error_right {ε α : Type} {R : ε → ε → Prop} {x y : Except ε α} (h : Agree R x y) {e' : ε}
    (hy : y = .error e') : ∃ e, x = .error e ∧ R e e' := by
  subst hy
  cases x with
  | ok a => exact h.elim
  | error e => exact ⟨e, rfl, h⟩

/-- same error class -/
def SameCls {N : Type} (e e' : LoadError N) : Prop := e.cls = e'.cls

section Graph
variable {N : Type} [DecidableEq N]

/-! ## `removeNodes` -/

theorem removeNodes_removeNodes (g : Graph N) (a b : List N) :
    (g.removeNodes a).removeNodes b = g.removeNodes (a ++ b) := by
  simp only [Graph.removeNodes, List.filter_filter, List.mem_append, Graph.mk.injEq]
  constructor
  · apply List.filter_congr
    intro n _
    by_cases h1 : n.name ∈ a <;> by_cases h2 : n.name ∈ b <;> simp [h1, h2]
  · apply List.filter_congr
    intro e _
    by_cases h1 : e.1 ∈ a <;> by_cases h2 : e.1 ∈ b <;> by_cases h3 : e.2 ∈ a <;> by_cases h4 : e.2 ∈ b <;>
      simp [h1, h2, h3, h4]

theorem removeNodes_congr (g : Graph N) {a b : List N} (h : ∀ x, x ∈ a ↔ x ∈ b) :
    g.removeNodes a = g.removeNodes b := by
  simp only [Graph.removeNodes, Graph.mk.injEq]
  constructor
  · apply List.filter_congr
    intro n _
    simp [h]
  · apply List.filter_congr
    intro e _
    simp [h]

theorem removeNodes_perm (g : Graph N) {a b : List N} (h : a.Perm b) : g.removeNodes a = g.removeNodes b :=
  removeNodes_congr g (fun _ => h.mem_iff)

theorem removeNodes_nil (g : Graph N) : g.removeNodes [] = g := by
  cases g; simp [Graph.removeNodes]

/-- removing the nodes of a list one by one = removing them all at once -/
theorem foldl_removeNodes (ps : List N) (g : Graph N) :
    ps.foldl (fun g p => g.removeNodes [p]) g = g.removeNodes ps := by
  induction ps generalizing g with
  | nil => exact (removeNodes_nil g).symm
  | cons p ps ih => rw [List.foldl_cons, ih, removeNodes_removeNodes]; rfl

/-- single removals commute -/
theorem removeNodes_comm (g : Graph N) (p q : N) :
    (g.removeNodes [p]).removeNodes [q] = (g.removeNodes [q]).removeNodes [p] := by
  rw [removeNodes_removeNodes, removeNodes_removeNodes]
  exact removeNodes_congr g (fun x => by simp [or_comm])

/-! ## the inner loop -/

/-- the one-at-a-time loop names the first original input port of the list, or removes the whole list -/
theorem rmDeadEnds_eq (in0 : List N) (ps : List N) (g : Graph N) :
    rmDeadEnds in0 ps g =
      match ps.find? (fun u => decide (u ∈ in0)) with
      | some p => .error (.deadInput p)
      | none => .ok (g.removeNodes ps) := by
  induction ps generalizing g with
  | nil => simp [rmDeadEnds, removeNodes_nil]
  | cons p ps ih =>
    by_cases hp : p ∈ in0
    · simp [rmDeadEnds, hp]
    · simp only [rmDeadEnds, hp, if_false, List.find?_cons, decide_false]
      rw [ih, removeNodes_removeNodes]
      rfl

theorem find?_perm_none {α : Type} {p : α → Bool} {l l' : List α} (h : l'.Perm l) (hn : l.find? p = none) :
    l'.find? p = none := by
  rw [List.find?_eq_none] at hn ⊢
  intro x hx
  exact hn x (h.mem_iff.1 hx)

theorem find?_perm_some {α : Type} {p : α → Bool} {l l' : List α} (h : l'.Perm l) {a : α} (hs : l.find? p = some a) :
    ∃ a', l'.find? p = some a' := by
  cases h' : l'.find? p with
  | some a' => exact ⟨a', rfl⟩
  | none =>
    rw [List.find?_eq_none] at h'
    exact absurd (List.find?_some hs) (h' a (h.mem_iff.2 (List.mem_of_find?_eq_some hs)))

/-! ## the outer loop -/

/-- the round's dead ends: current output ports that were not output ports originally (`new_out_ports`) -/
def deadEnds (out0 : List N) (g : Graph N) : List N := g.outPorts.filter (fun u => !decide (u ∈ out0))

/-- the graph at the start of the round in which `chk_terminals` stops (no dead end left, a dead input port
present, or fuel exhausted) -/
def stopGraph (in0 out0 : List N) : Nat → Graph N → Graph N
  | 0, g => g
  | fuel + 1, g =>
    if (deadEnds out0 g).isEmpty then g else
    if (deadEnds out0 g).any (fun u => decide (u ∈ in0)) then g else
    stopGraph in0 out0 fuel (g.removeNodes (deadEnds out0 g))

/-- `p` is an original input port that is a dead end of `g` (a member of that round's `new_out_ports`) -/
def DeadInputAt (in0 out0 : List N) (g : Graph N) (p : N) : Prop := p ∈ in0 ∧ p ∈ deadEnds out0 g

/-- the two runs stop at the graph `sg`: both accept it, or both raise `DeadInputError` for dead input ports of it -/
inductive SameRun (in0 out0 : List N) (sg : Graph N) :
    Except (LoadError N) (Graph N) → Except (LoadError N) (Graph N) → Prop
  | ok : SameRun in0 out0 sg (.ok sg) (.ok sg)
  | err (p p' : N) : DeadInputAt in0 out0 sg p → DeadInputAt in0 out0 sg p' →
      SameRun in0 out0 sg (.error (.deadInput p)) (.error (.deadInput p'))

theorem deadInputAt_of_find? {in0 out0 : List N} {g : Graph N} {l : List N} (hl : l.Perm (deadEnds out0 g)) {p : N}
    (h : l.find? (fun u => decide (u ∈ in0)) = some p) : DeadInputAt in0 out0 g p :=
  ⟨by simpa using List.find?_some h, hl.mem_iff.1 (List.mem_of_find?_eq_some h)⟩

/-- the literal loop under any per-round permutation and the model loop stop in the same round, with the same
graph, in the same way -/
theorem sameRun {ord : List N → List N} (hord : ∀ l, (ord l).Perm l) (in0 out0 : List N) :
    ∀ (fuel : Nat) (g : Graph N),
      SameRun in0 out0 (stopGraph in0 out0 fuel g) (chkTerminalsP ord in0 out0 fuel g) (chkTerminals in0 out0 fuel g) := by
  intro fuel
  induction fuel with
  | zero => intro g; exact .ok
  | succ fuel ih =>
    intro g
    simp only [chkTerminalsP, chkTerminals, stopGraph]
    change SameRun in0 out0
      (if (deadEnds out0 g).isEmpty then g else
        if (deadEnds out0 g).any (fun u => decide (u ∈ in0)) then g else
          stopGraph in0 out0 fuel (g.removeNodes (deadEnds out0 g)))
      (if (deadEnds out0 g).isEmpty then .ok g else
        match rmDeadEnds in0 (ord (deadEnds out0 g)) g with
        | .error e => .error e
        | .ok g' => chkTerminalsP ord in0 out0 fuel g')
      (if (deadEnds out0 g).isEmpty then .ok g else
        match (deadEnds out0 g).find? (fun u => decide (u ∈ in0)) with
        | some p => .error (.deadInput p)
        | none => chkTerminals in0 out0 fuel (g.removeNodes (deadEnds out0 g)))
    by_cases he : (deadEnds out0 g).isEmpty
    · simp only [he, if_true]; exact .ok
    · simp only [he, Bool.false_eq_true, if_false]
      rw [rmDeadEnds_eq]
      cases hf : (deadEnds out0 g).find? (fun u => decide (u ∈ in0)) with
      | some p =>
        obtain ⟨p', hp'⟩ := find?_perm_some (hord (deadEnds out0 g)) hf
        have hany : (deadEnds out0 g).any (fun u => decide (u ∈ in0)) = true :=
          List.any_eq_true.2 ⟨p, List.mem_of_find?_eq_some hf, List.find?_some (p := fun u => decide (u ∈ in0)) hf⟩
        simp only [hp', hany, if_true]
        exact .err p' p (deadInputAt_of_find? (hord _) hp') (deadInputAt_of_find? (List.Perm.refl _) hf)
      | none =>
        have hn' := find?_perm_none (hord (deadEnds out0 g)) hf
        have hany : (deadEnds out0 g).any (fun u => decide (u ∈ in0)) = false := by
          rw [List.find?_eq_none] at hf
          rw [List.any_eq_false]
          exact hf
        simp only [hn', hany, Bool.false_eq_true, if_false]
        rw [removeNodes_perm g (hord (deadEnds out0 g))]
        exact ih _

/-! ## the port named by the literal loop is a sink of the graph it is met in -/

/-- removing other units never gives a sink a successor -/
theorem outPorts_removeNodes {g : Graph N} {dead : List N} {p : N} (hp : p ∈ g.outPorts) (hd : p ∉ dead) :
    p ∈ (g.removeNodes dead).outPorts := by
  simp only [Graph.outPorts, Graph.names, Graph.succs, Graph.removeNodes, List.mem_filter, List.mem_map,
    List.isEmpty_iff, List.map_eq_nil_iff, List.filter_eq_nil_iff, List.filter_filter] at hp ⊢
  obtain ⟨⟨n, hn, rfl⟩, hs⟩ := hp
  refine ⟨⟨n, ⟨hn, by simp [hd]⟩, rfl⟩, ?_⟩
  intro e he
  have := hs e he
  simp [this]

/-- an error of the inner loop names the first original input port of the list; the elements before it have been
removed, and it is still a sink of the graph it is met in -/
theorem rmDeadEnds_error {in0 ps : List N} {g : Graph N} {e : LoadError N} (h : rmDeadEnds in0 ps g = .error e)
    (hs : ∀ q ∈ ps, q ∈ g.outPorts) :
    ∃ p pre post, e = .deadInput p ∧ ps = pre ++ p :: post ∧ p ∈ in0 ∧ (∀ q ∈ pre, q ∉ in0) ∧
      p ∈ (g.removeNodes pre).outPorts := by
  rw [rmDeadEnds_eq] at h
  cases hf : ps.find? (fun u => decide (u ∈ in0)) with
  | none => rw [hf] at h; cases h
  | some p =>
    rw [hf] at h
    cases h
    obtain ⟨hp, pre, post, hps, hpre⟩ := List.find?_eq_some_iff_append.1 hf
    have hp' : p ∈ in0 := by simpa using hp
    have hpre' : ∀ q ∈ pre, q ∉ in0 := fun q hq => by simpa using hpre q hq
    refine ⟨p, pre, post, rfl, hps, hp', hpre', outPorts_removeNodes (hs p (by simp [hps])) ?_⟩
    intro hin
    exact hpre' p hin hp'

/-- an error of the literal loop is raised by the inner loop of the round that starts with `stopGraph` -/
theorem chkTerminalsP_error_round {ord : List N → List N} (hord : ∀ l, (ord l).Perm l) (in0 out0 : List N) :
    ∀ (fuel : Nat) (g : Graph N) (e : LoadError N), chkTerminalsP ord in0 out0 fuel g = .error e →
      rmDeadEnds in0 (ord (deadEnds out0 (stopGraph in0 out0 fuel g))) (stopGraph in0 out0 fuel g) = .error e := by
  intro fuel
  induction fuel with
  | zero => intro g e h; cases h
  | succ fuel ih =>
    intro g e
    simp only [chkTerminalsP, stopGraph]
    change (if (deadEnds out0 g).isEmpty then .ok g else
        match rmDeadEnds in0 (ord (deadEnds out0 g)) g with
        | .error e => .error e
        | .ok g' => chkTerminalsP ord in0 out0 fuel g') = Except.error e → _
    by_cases he : (deadEnds out0 g).isEmpty
    · simp only [he, if_true]; intro h; cases h
    · simp only [he, Bool.false_eq_true, if_false]
      by_cases hany : (deadEnds out0 g).any (fun u => decide (u ∈ in0)) = true
      · simp only [hany, if_true]
        cases hr : rmDeadEnds in0 (ord (deadEnds out0 g)) g with
        | error e' => intro h; cases h; rfl
        | ok g' =>
          rw [rmDeadEnds_eq] at hr
          obtain ⟨p, hp, hpi⟩ := List.any_eq_true.1 hany
          cases hf : (ord (deadEnds out0 g)).find? (fun u => decide (u ∈ in0)) with
          | some q => rw [hf] at hr; cases hr
          | none =>
            rw [List.find?_eq_none] at hf
            exact absurd hpi (hf p ((hord _).mem_iff.2 hp))
      · simp only [hany, Bool.false_eq_true, if_false]
        have hnone : (ord (deadEnds out0 g)).find? (fun u => decide (u ∈ in0)) = none := by
          rw [List.find?_eq_none]
          intro x hx hxi
          exact hany (List.any_eq_true.2 ⟨x, (hord _).mem_iff.1 hx, hxi⟩)
        rw [rmDeadEnds_eq, hnone, removeNodes_perm g (hord (deadEnds out0 g))]
        exact ih _ e

theorem SameRun.agree {in0 out0 : List N} {sg : Graph N} {x y : Except (LoadError N) (Graph N)}
    (h : SameRun in0 out0 sg x y) : Agree SameCls x y := by
  cases h with
  | ok => exact rfl
  | err p p' _ _ => exact rfl

/-! ## `prepare` and `load` -/

theorem prepareP_agree {ord : List N → List N} (hord : ∀ l, (ord l).Perm l) (g : Graph N) :
    Agree SameCls (prepareP ord g) (prepare g) := by
  unfold prepareP prepare
  by_cases hac : isAcyclic g
  · simp only [hac, Bool.not_true, Bool.false_eq_true, if_false]
    have h := sameRun hord g.inPorts g.outPorts ((rmEmpty (cleanStruct g)).nodes.length + 1) (rmEmpty (cleanStruct g))
    generalize chkTerminalsP ord g.inPorts g.outPorts _ _ = x at h
    generalize chkTerminals g.inPorts g.outPorts _ _ = y at h
    cases h with
    | ok => exact Agree.refl (R := SameCls) (fun _ => rfl) _
    | err p p' _ _ => exact rfl
  · simp only [hac, Bool.not_false, if_true]
    exact rfl

theorem loadP_agree [LT N] [DecidableRel (α := N) (· < ·)] {ord : List N → List N} (hord : ∀ l, (ord l).Perm l)
    (fold : N → N) (d : Desc N) : Agree SameCls (loadP ord fold d) (load fold d) := by
  unfold loadP load
  cases createGraph fold d with
  | error e => exact rfl
  | ok gr =>
    dsimp only
    have h := prepareP_agree hord gr.1
    generalize prepareP ord gr.1 = x at h
    generalize prepare gr.1 = y at h
    cases x with
    | ok a =>
      cases y with
      | ok b => cases h; exact Agree.refl (R := SameCls) (fun _ => rfl) _
      | error e => exact h.elim
    | error e =>
      cases y with
      | ok b => exact h.elim
      | error e' => exact h

end Graph

/-! ## the capability registry -/

open ICase (lower)
open Isa (Str)

theorem eq_of_map_nodup {α β : Type} {f : α → β} : ∀ {l : List α}, (l.map f).Nodup → ∀ {a b : α}, a ∈ l → b ∈ l →
    f a = f b → a = b
  | [], _, _, _, ha, _, _ => by simp at ha
  | x :: l, hn, a, b, ha, hb, hab => by
    rw [List.map_cons, List.nodup_cons] at hn
    rcases List.mem_cons.1 ha with rfl | ha' <;> rcases List.mem_cons.1 hb with rfl | hb'
    · rfl
    · exact absurd (hab ▸ List.mem_map.2 ⟨b, hb', rfl⟩) hn.1
    · exact absurd (hab ▸ List.mem_map.2 ⟨a, ha', rfl⟩) hn.1
    · exact eq_of_map_nodup hn.2 ha' hb' hab

/-- with pairwise distinct folded forms the registry maps a key to *the* capability with that folded form -/
theorem capRegistry_get?_some_iff {caps : List Str} (hn : (caps.map lower).Nodup) (k v : Str) :
    AMap.get? (Isa.capRegistry caps) k = some v ↔ v ∈ caps ∧ lower v = k := by
  constructor
  · intro h
    rcases IsaLemmas.capFold_some caps [] k v h with h' | h'
    · exact h'
    · simp at h'
  · rintro ⟨hv, hk⟩
    cases h : AMap.get? (Isa.capRegistry caps) k with
    | none =>
      unfold Isa.capRegistry at h
      rw [IsaLemmas.capFold_none] at h
      exact absurd hk (h.2 v hv)
    | some w =>
      rcases IsaLemmas.capFold_some caps [] k w h with h' | h'
      · rw [eq_of_map_nodup hn h'.1 hv (h'.2.trans hk.symm)]
      · simp at h'

/-- the registry of a permutation is lookup-equal -/
theorem capRegistry_get?_perm {caps caps' : List Str} (hn : (caps.map lower).Nodup) (hp : caps'.Perm caps) (k : Str) :
    AMap.get? (Isa.capRegistry caps') k = AMap.get? (Isa.capRegistry caps) k := by
  have hn' : (caps'.map lower).Nodup := (hp.map lower).nodup_iff.2 hn
  apply Option.ext
  intro v
  rw [capRegistry_get?_some_iff hn, capRegistry_get?_some_iff hn', hp.mem_iff]

/-- `_create_isa` only looks the capability registry up -/
theorem createIsa_congr {r1 r2 : Isa.Registry} (h : ∀ k, AMap.get? r1 k = AMap.get? r2 k) :
    ∀ (l : List (Str × Str)) (ir : Isa.Registry) (acc : AMap Str Str),
      Isa.createIsa r1 ir acc l = Isa.createIsa r2 ir acc l
  | [], _, _ => rfl
  | (instr, cap) :: rest, ir, acc => by
    simp only [Isa.createIsa, h]
    cases AMap.get? ir (lower instr) with
    | some old => rfl
    | none =>
      cases AMap.get? r2 (lower cap) with
      | none => rfl
      | some std => exact createIsa_congr h rest _ _

theorem icaseSet_subset : ∀ (l : List Str) (c : Str), c ∈ Isa.icaseSet l → c ∈ l
  | [], _, h => by simp [Isa.icaseSet] at h
  | x :: xs, c, h => by
    simp only [Isa.icaseSet, List.mem_cons, List.mem_filter] at h
    rcases h with rfl | ⟨h, _⟩
    · simp
    · exact List.mem_cons_of_mem _ (icaseSet_subset xs c h)

/-- a `frozenset` of `ICaseString`s: the folded forms are pairwise distinct -/
theorem icaseSet_fold_nodup : ∀ (l : List Str), ((Isa.icaseSet l).map lower).Nodup
  | [] => by simp [Isa.icaseSet]
  | c :: cs => by
    rw [Isa.icaseSet, List.map_cons, List.nodup_cons]
    constructor
    · intro h
      obtain ⟨d, hd, hdc⟩ := List.mem_map.1 h
      have := (List.mem_filter.1 hd).2
      simp [hdc] at this
    · exact ((List.filter_sublist (l := Isa.icaseSet cs)).map lower).nodup (icaseSet_fold_nodup cs)

end OrderIndep
end ProcSim
