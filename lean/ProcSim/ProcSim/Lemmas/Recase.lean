import ProcSim.Lemmas.LoaderC10
import ProcSim.Lemmas.Program
import ProcSim.Lemmas.Isa
import ProcSim.Model.Pipeline
/-!
# Lemmas for C13 — re-casing a non-defining occurrence of a name changes nothing

* §1 the list-level relations: `SameFold`, `Forall2` facts, `RecasedFrom` (same folded form everywhere, first
  occurrences untouched)
* §2 loader stage 1 (`loadCaps`, `addUnits`): same capability lists, same registry
* §3 loader stage 2 (`addEdges`): same standardised connections
* §4 nothing after `_create_graph` reads the raw memory-access lists: `mapAcl` commutes with every stage of
  `prepare`, and `makeProcessor` standardises them (idempotently)
* §5 `load`
* §6 instruction sets (`createIsa`)
* §7 programs: the exact form of the C14 round trip (`readProgram_render`), `expectedFrom` on re-cased lists,
  `compileProgram`
-/
namespace ProcSim
namespace Recase
open Loader hiding Forall2
open Spec.Text (Forall2)

set_option linter.unusedSectionVars false

/-! ## §1 relations on lists of names -/

section Rel
variable {N : Type}

/-- equal up to letter case -/
abbrev SameFold (fold : N → N) (a b : N) : Prop := fold a = fold b

/-- `l'` re-cases the name occurrences `l`, `seen` being the occurrences read before them: every occurrence keeps
its folded form, and an occurrence that is the **first** of its folded form (none in `seen`, none earlier in `l`)
— a *defining* occurrence — is unchanged. -/
def RecasedFrom (fold : N → N) : List N → List N → List N → Prop
  | _, [], [] => True
  | seen, a :: as, b :: bs =>
    fold a = fold b ∧ ((∀ s ∈ seen, fold s ≠ fold a) → a = b) ∧ RecasedFrom fold (seen ++ [a]) as bs
  | _, _, _ => False

instance decForall2 {α β : Type} (R : α → β → Prop) [∀ a b, Decidable (R a b)] :
    ∀ (l : List α) (l' : List β), Decidable (Forall2 R l l')
  | [], [] => isTrue trivial
  | [], _ :: _ => isFalse id
  | _ :: _, [] => isFalse id
  | a :: as, b :: bs =>
    match (inferInstance : Decidable (R a b)), decForall2 R as bs with
    | isTrue h, isTrue h' => isTrue ⟨h, h'⟩
    | isFalse h, _ => isFalse fun x => h x.1
    | _, isFalse h' => isFalse fun x => h' x.2

instance decRecasedFrom [DecidableEq N] (fold : N → N) :
    ∀ (seen l l' : List N), Decidable (RecasedFrom fold seen l l')
  | _, [], [] => isTrue trivial
  | _, [], _ :: _ => isFalse id
  | _, _ :: _, [] => isFalse id
  | seen, a :: as, b :: bs =>
    match (inferInstance : Decidable (fold a = fold b ∧ ((∀ s ∈ seen, fold s ≠ fold a) → a = b))),
        decRecasedFrom fold (seen ++ [a]) as bs with
    | isTrue h, isTrue h' => isTrue ⟨h.1, h.2, h'⟩
    | isFalse h, _ => isFalse fun x => h ⟨x.1, x.2.1⟩
    | _, isFalse h' => isFalse fun x => h' x.2.2

theorem Forall2.length_eq {α β : Type} {R : α → β → Prop} : ∀ {l : List α} {l' : List β}, Forall2 R l l' →
    l.length = l'.length
  | [], [], _ => rfl
  | [], _ :: _, h => h.elim
  | _ :: _, [], h => h.elim
  | _ :: _, _ :: _, h => by simp [Forall2.length_eq h.2]

theorem Forall2.imp {α β : Type} {R S : α → β → Prop} (hRS : ∀ a b, R a b → S a b) :
    ∀ {l : List α} {l' : List β}, Forall2 R l l' → Forall2 S l l'
  | [], [], _ => trivial
  | [], _ :: _, h => h.elim
  | _ :: _, [], h => h.elim
  | _ :: _, _ :: _, h => ⟨hRS _ _ h.1, Forall2.imp hRS h.2⟩

theorem Forall2.refl {α : Type} {R : α → α → Prop} (hR : ∀ a, R a a) : ∀ (l : List α), Forall2 R l l
  | [] => trivial
  | _ :: l => ⟨hR _, Forall2.refl hR l⟩

/-- pointwise related lists have equal images under a map that identifies related elements -/
theorem Forall2.map_eq {α β γ : Type} {R : α → β → Prop} {f : α → γ} {g : β → γ} (h : ∀ a b, R a b → f a = g b) :
    ∀ {l : List α} {l' : List β}, Forall2 R l l' → l.map f = l'.map g
  | [], [], _ => rfl
  | [], _ :: _, hl => hl.elim
  | _ :: _, [], hl => hl.elim
  | _ :: _, _ :: _, hl => by simp [h _ _ hl.1, Forall2.map_eq h hl.2]

theorem RecasedFrom.length_eq (fold : N → N) : ∀ {seen l l' : List N}, RecasedFrom fold seen l l' →
    l.length = l'.length
  | _, [], [], _ => rfl
  | _, [], _ :: _, h => h.elim
  | _, _ :: _, [], h => h.elim
  | _, _ :: _, _ :: _, h => by simp [RecasedFrom.length_eq fold h.2.2]

theorem RecasedFrom.refl (fold : N → N) : ∀ (seen l : List N), RecasedFrom fold seen l l
  | _, [] => trivial
  | seen, a :: l => ⟨rfl, fun _ => rfl, RecasedFrom.refl fold (seen ++ [a]) l⟩

/-- splitting a re-cased list at a position -/
theorem RecasedFrom.append_iff (fold : N → N) : ∀ {seen a a' b b' : List N}, a.length = a'.length →
    (RecasedFrom fold seen (a ++ b) (a' ++ b') ↔ RecasedFrom fold seen a a' ∧ RecasedFrom fold (seen ++ a) b b')
  | seen, [], [], b, b', _ => by simp [RecasedFrom]
  | _, [], _ :: _, _, _, h => by simp at h
  | _, _ :: _, [], _, _, h => by simp at h
  | seen, x :: a, y :: a', b, b', h => by
    have ih := RecasedFrom.append_iff fold (seen := seen ++ [x]) (a := a) (a' := a') (b := b) (b' := b')
      (by simpa using h)
    simp only [List.cons_append, RecasedFrom, ih, List.append_assoc, List.nil_append, and_assoc]

/-- the pointwise part of a re-casing -/
theorem RecasedFrom.forall2 (fold : N → N) : ∀ {seen l l' : List N}, RecasedFrom fold seen l l' →
    Forall2 (SameFold fold) l l'
  | _, [], [], _ => trivial
  | _, [], _ :: _, h => h.elim
  | _, _ :: _, [], h => h.elim
  | _, _ :: _, _ :: _, h => ⟨h.1, RecasedFrom.forall2 fold h.2.2⟩

end Rel

/-! ## §2 stage 1: capabilities and units -/

section Stage1
variable {N : Type} [DecidableEq N] (fold : N → N)

/-- every spelling of `P` has an entry (up to case) in the registry `reg` -/
def Cover (P reg : List N) : Prop := ∀ s ∈ P, (lookupFold fold reg s).isSome = true

theorem Cover.nil (reg : List N) : Cover fold [] reg := fun _ h => by simp at h

theorem lookupFold_isSome_congr {l : List N} {x y : N} (h : fold x = fold y) :
    (lookupFold fold l x).isSome = (lookupFold fold l y).isSome := by rw [lookupFold_congr fold h]

theorem Cover.snoc {P reg : List N} {c : N} (h : Cover fold P reg) (hc : (lookupFold fold reg c).isSome = true) :
    Cover fold (P ++ [c]) reg := by
  intro s hs
  rcases List.mem_append.1 hs with hs | hs
  · exact h s hs
  · simp only [List.mem_singleton] at hs; subst hs; exact hc

theorem Cover.grow {P reg : List N} (h : Cover fold P reg) (c : N) : Cover fold P (reg ++ [c]) := by
  intro s hs
  rw [lookupFold_append]
  have := h s hs
  cases hl : lookupFold fold reg s with
  | none => rw [hl] at this; cases this
  | some y => rfl

theorem Cover.none {P reg : List N} {c : N} (h : Cover fold P reg) (hc : lookupFold fold reg c = none) :
    ∀ s ∈ P, fold s ≠ fold c := by
  intro s hs he
  have := h s hs
  rw [lookupFold_congr fold he, hc] at this
  cases this

theorem lookupFold_self_snoc (reg : List N) (c : N) : (lookupFold fold (reg ++ [c]) c).isSome = true := by
  rw [lookupFold_append, lookupFold_singleton, if_pos rfl]
  cases lookupFold fold reg c <;> rfl

/-- `_load_caps` on a re-cased capability list: the same standardised list and the same registry -/
theorem loadCaps_recase : ∀ (cs cs' seen seen' reg P : List N), RecasedFrom fold P cs cs' →
    (∀ x, (lookupFold fold seen x).isSome = (lookupFold fold seen' x).isSome) →
    Cover fold P reg → Cover fold seen reg →
    loadCaps fold cs seen reg = loadCaps fold cs' seen' reg ∧ Cover fold (P ++ cs) (loadCaps fold cs seen reg).2
  | [], [], _, _, reg, P, _, _, hP, _ => ⟨rfl, by simpa [loadCaps] using hP⟩
  | [], _ :: _, _, _, _, _, h, _, _, _ => h.elim
  | _ :: _, [], _, _, _, _, h, _, _, _ => h.elim
  | c :: cs, c' :: cs', seen, seen', reg, P, h, hs, hP, hS => by
    obtain ⟨hf, hfirst, hrest⟩ := h
    have happ : P ++ c :: cs = (P ++ [c]) ++ cs := by simp
    rw [happ]
    have hseen' := hs c
    rw [lookupFold_isSome_congr fold (l := seen') hf] at hseen'
    rw [loadCaps, loadCaps]
    cases h1 : lookupFold fold seen c with
    | some y =>
      rw [h1] at hseen'
      obtain ⟨y', hy'⟩ := Option.isSome_iff_exists.1 hseen'.symm
      rw [hy']
      have hy := lookupFold_some fold h1
      have hc : (lookupFold fold reg c).isSome = true := by
        rw [← lookupFold_isSome_congr fold hy.2]; exact hS y hy.1
      exact loadCaps_recase cs cs' seen seen' reg (P ++ [c]) hrest hs (hP.snoc fold hc) hS
    | none =>
      rw [h1] at hseen'
      have h1' : lookupFold fold seen' c' = none := by
        cases hl : lookupFold fold seen' c' with
        | none => rfl
        | some z => rw [hl] at hseen'; cases hseen'
      rw [h1']
      have hs' : ∀ x, (lookupFold fold (c :: seen) x).isSome = (lookupFold fold (c' :: seen') x).isSome := by
        intro x
        rw [lookupFold_cons, lookupFold_cons, ← hf]
        by_cases hx : fold c = fold x
        · simp [hx]
        · simp [hx, hs x]
      rw [← lookupFold_congr fold hf]
      cases h2 : lookupFold fold reg c with
      | some s =>
        have hc : (lookupFold fold reg c).isSome = true := by rw [h2]; rfl
        have hS' : Cover fold (c :: seen) reg := by
          intro z hz
          rcases List.mem_cons.1 hz with rfl | hz
          · exact hc
          · exact hS z hz
        have ih := loadCaps_recase cs cs' (c :: seen) (c' :: seen') reg (P ++ [c]) hrest hs' (hP.snoc fold hc) hS'
        exact ⟨by simp only [ih.1], ih.2⟩
      | none =>
        have hcc : c = c' := hfirst (hP.none fold h2)
        subst hcc
        have hS' : Cover fold (c :: seen) (reg ++ [c]) := by
          intro z hz
          rcases List.mem_cons.1 hz with rfl | hz
          · exact lookupFold_self_snoc fold reg _
          · exact (Cover.grow fold hS c) z hz
        have ih := loadCaps_recase cs cs' (c :: seen) (c :: seen') (reg ++ [c]) (P ++ [c]) hrest hs'
          ((hP.grow fold c).snoc fold (lookupFold_self_snoc fold reg c)) hS'
        exact ⟨by simp only [ih.1], ih.2⟩

/-- unit lists related as in a re-cased description: same names, widths, locks; capability lists re-cased relative
to all earlier capability occurrences `P`; memory-access lists pointwise related by `A` -/
def UnitsRel (A : N → N → Prop) : List N → List (UnitD N) → List (UnitD N) → Prop
  | _, [], [] => True
  | P, u :: us, v :: vs =>
    u.name = v.name ∧ u.width = v.width ∧ u.rd = v.rd ∧ u.wr = v.wr ∧ RecasedFrom fold P u.caps v.caps ∧
      Forall2 A u.acl v.acl ∧ UnitsRel A (P ++ u.caps) us vs
  | _, _, _ => False

/-- graph nodes that differ at most in their raw memory-access lists -/
def NodeRel (A : N → N → Prop) (n n' : GNode N) : Prop :=
  n.name = n'.name ∧ n.width = n'.width ∧ n.caps = n'.caps ∧ n.rd = n'.rd ∧ n.wr = n'.wr ∧ Forall2 A n.acl n'.acl

/-- the `_add_unit` loop on re-cased units: the same error, or the same registry and nodes differing at most in
the raw memory-access lists -/
theorem addUnits_recase (A : N → N → Prop) : ∀ (us us' : List (UnitD N)) (names reg P : List N),
    UnitsRel fold A P us us' → Cover fold P reg →
    match addUnits fold us names reg, addUnits fold us' names reg with
    | .error e, .error e' => e = e'
    | .ok r, .ok r' => r.2 = r'.2 ∧ Cover fold (P ++ us.flatMap (·.caps)) r.2 ∧ Forall2 (NodeRel A) r.1 r'.1
    | _, _ => False
  | [], [], _, reg, P, _, hP => by simpa [addUnits, Forall2] using hP
  | [], _ :: _, _, _, _, h, _ => h.elim
  | _ :: _, [], _, _, _, h, _ => h.elim
  | u :: us, v :: vs, names, reg, P, h, hP => by
    obtain ⟨hn, hw, hrd, hwr, hcaps, hacl, hrest⟩ := h
    simp only [addUnits, ← hn, ← hw]
    cases lookupFold fold names u.name with
    | some old => rfl
    | none =>
      simp only
      by_cases hwd : u.width ≤ 0
      · simp only [hwd, ↓reduceIte]
      · simp only [hwd, ↓reduceIte]
        obtain ⟨hl, hcov⟩ := loadCaps_recase fold u.caps v.caps [] [] reg P hcaps (fun _ => rfl) hP
          (fun _ h => by simp at h)
        rw [← hl]
        have ih := addUnits_recase A us vs (names ++ [u.name]) (loadCaps fold u.caps [] reg).2 (P ++ u.caps) hrest hcov
        revert ih
        cases addUnits fold us (names ++ [u.name]) (loadCaps fold u.caps [] reg).2 with
        | error e =>
          cases addUnits fold vs (names ++ [u.name]) (loadCaps fold u.caps [] reg).2 with
          | error e' => intro ih; simpa using ih
          | ok r' => exact id
        | ok r =>
          cases addUnits fold vs (names ++ [u.name]) (loadCaps fold u.caps [] reg).2 with
          | error e' => exact id
          | ok r' =>
            intro ih
            refine ⟨ih.1, ?_, ⟨rfl, rfl, rfl, hrd, hwr, hacl⟩, ih.2.2⟩
            simpa [List.flatMap_cons] using ih.2.1

end Stage1

end Recase
end ProcSim
