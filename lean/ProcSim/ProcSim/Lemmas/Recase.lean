import ProcSim.Lemmas.LoaderC10
import ProcSim.Lemmas.Program
import ProcSim.Lemmas.Isa
import ProcSim.Model.Pipeline
/-!
# Lemmas for C13 — re-casing a non-defining occurrence of a name changes nothing

* §1 the list-level relations: `SameFold`, `Forall2` facts, `RecasedFrom` (same folded form everywhere, first
  occurrences untouched)
* §2 loader stage 1 (`loadCaps`, `addUnits`): same capability lists, same registry
* §3 loader stage 2 (`addEdges`): same standardised connections
* §4 nothing after `_create_graph` reads the raw memory-access lists: `mapAcl` commutes with every stage of
  `prepare`, and `makeProcessor` standardises them (idempotently)
* §5 `load`
* §6 instruction sets (`createIsa`)
* §7 programs: the exact form of the C14 round trip (`readProgram_render`), `expectedFrom` on re-cased lists,
  `compileProgram`
* §8 the composed pipeline (`front`, `run`, `cliTable`)
* §9 re-casing keeps a written program well-formed (`instrOK`): blanks and commas are not letters
-/
namespace ProcSim
namespace Recase
open Loader hiding Forall2
open Spec.Text (Forall2)

set_option linter.unusedSectionVars false

/-! ## §1 relations on lists of names -/

section Rel
variable {N : Type}

/-- equal up to letter case -/
abbrev SameFold (fold : N → N) (a b : N) : Prop := fold a = fold b

/-- `l'` re-cases the name occurrences `l`, `seen` being the occurrences read before them: every occurrence keeps
its folded form, and an occurrence that is the **first** of its folded form (none in `seen`, none earlier in `l`)
— a *defining* occurrence — is unchanged. -/
def RecasedFrom (fold : N → N) : List N → List N → List N → Prop
  | _, [], [] => True
  | seen, a :: as, b :: bs =>
    fold a = fold b ∧ ((∀ s ∈ seen, fold s ≠ fold a) → a = b) ∧ RecasedFrom fold (seen ++ [a]) as bs
  | _, _, _ => False

instance decForall2 {α β : Type} (R : α → β → Prop) [∀ a b, Decidable (R a b)] :
    ∀ (l : List α) (l' : List β), Decidable (Forall2 R l l')
  | [], [] => isTrue trivial
  | [], _ :: _ => isFalse id
  | _ :: _, [] => isFalse id
  | a :: as, b :: bs =>
    match (inferInstance : Decidable (R a b)), decForall2 R as bs with
    | isTrue h, isTrue h' => isTrue ⟨h, h'⟩
    | isFalse h, _ => isFalse fun x => h x.1
    | _, isFalse h' => isFalse fun x => h' x.2

instance decRecasedFrom [DecidableEq N] (fold : N → N) :
    ∀ (seen l l' : List N), Decidable (RecasedFrom fold seen l l')
  | _, [], [] => isTrue trivial
  | _, [], _ :: _ => isFalse id
  | _, _ :: _, [] => isFalse id
  | seen, a :: as, b :: bs =>
    match (inferInstance : Decidable (fold a = fold b ∧ ((∀ s ∈ seen, fold s ≠ fold a) → a = b))),
        decRecasedFrom fold (seen ++ [a]) as bs with
    | isTrue h, isTrue h' => isTrue ⟨h.1, h.2, h'⟩
    | isFalse h, _ => isFalse fun x => h ⟨x.1, x.2.1⟩
    | _, isFalse h' => isFalse fun x => h' x.2.2

theorem Forall2.length_eq {α β : Type} {R : α → β → Prop} : ∀ {l : List α} {l' : List β}, Forall2 R l l' →
    l.length = l'.length
  | [], [], _ => rfl
  | [], _ :: _, h => h.elim
  | _ :: _, [], h => h.elim
  | _ :: _, _ :: _, h => by simp [Forall2.length_eq h.2]

theorem Forall2.imp {α β : Type} {R S : α → β → Prop} (hRS : ∀ a b, R a b → S a b) :
    ∀ {l : List α} {l' : List β}, Forall2 R l l' → Forall2 S l l'
  | [], [], _ => trivial
  | [], _ :: _, h => h.elim
  | _ :: _, [], h => h.elim
  | _ :: _, _ :: _, h => ⟨hRS _ _ h.1, Forall2.imp hRS h.2⟩

theorem Forall2.refl {α : Type} {R : α → α → Prop} (hR : ∀ a, R a a) : ∀ (l : List α), Forall2 R l l
  | [] => trivial
  | _ :: l => ⟨hR _, Forall2.refl hR l⟩

/-- pointwise related lists have equal images under a map that identifies related elements -/
theorem Forall2.map_eq {α β γ : Type} {R : α → β → Prop} {f : α → γ} {g : β → γ} (h : ∀ a b, R a b → f a = g b) :
    ∀ {l : List α} {l' : List β}, Forall2 R l l' → l.map f = l'.map g
  | [], [], _ => rfl
  | [], _ :: _, hl => hl.elim
  | _ :: _, [], hl => hl.elim
  | _ :: _, _ :: _, hl => by simp [h _ _ hl.1, Forall2.map_eq h hl.2]

theorem RecasedFrom.length_eq (fold : N → N) : ∀ {seen l l' : List N}, RecasedFrom fold seen l l' →
    l.length = l'.length
  | _, [], [], _ => rfl
  | _, [], _ :: _, h => h.elim
  | _, _ :: _, [], h => h.elim
  | _, _ :: _, _ :: _, h => by simp [RecasedFrom.length_eq fold h.2.2]

theorem RecasedFrom.refl (fold : N → N) : ∀ (seen l : List N), RecasedFrom fold seen l l
  | _, [] => trivial
  | seen, a :: l => ⟨rfl, fun _ => rfl, RecasedFrom.refl fold (seen ++ [a]) l⟩

/-- splitting a re-cased list at a position -/
theorem RecasedFrom.append_iff (fold : N → N) : ∀ {seen a a' b b' : List N}, a.length = a'.length →
    (RecasedFrom fold seen (a ++ b) (a' ++ b') ↔ RecasedFrom fold seen a a' ∧ RecasedFrom fold (seen ++ a) b b')
  | seen, [], [], b, b', _ => by simp [RecasedFrom]
  | _, [], _ :: _, _, _, h => by simp at h
  | _, _ :: _, [], _, _, h => by simp at h
  | seen, x :: a, y :: a', b, b', h => by
    have ih := RecasedFrom.append_iff fold (seen := seen ++ [x]) (a := a) (a' := a') (b := b) (b' := b')
      (by simpa using h)
    simp only [List.cons_append, RecasedFrom, ih, List.append_assoc, List.nil_append, and_assoc]

/-- the pointwise part of a re-casing -/
theorem RecasedFrom.forall2 (fold : N → N) : ∀ {seen l l' : List N}, RecasedFrom fold seen l l' →
    Forall2 (SameFold fold) l l'
  | _, [], [], _ => trivial
  | _, [], _ :: _, h => h.elim
  | _, _ :: _, [], h => h.elim
  | _, _ :: _, _ :: _, h => ⟨h.1, RecasedFrom.forall2 fold h.2.2⟩

end Rel

/-! ## §2 stage 1: capabilities and units -/

section Stage1
variable {N : Type} [DecidableEq N] (fold : N → N)

/-- every spelling of `P` has an entry (up to case) in the registry `reg` -/
def Cover (P reg : List N) : Prop := ∀ s ∈ P, (lookupFold fold reg s).isSome = true

theorem Cover.nil (reg : List N) : Cover fold [] reg := fun _ h => by simp at h

theorem lookupFold_isSome_congr {l : List N} {x y : N} (h : fold x = fold y) :
    (lookupFold fold l x).isSome = (lookupFold fold l y).isSome := by rw [lookupFold_congr fold h]

theorem Cover.snoc {P reg : List N} {c : N} (h : Cover fold P reg) (hc : (lookupFold fold reg c).isSome = true) :
    Cover fold (P ++ [c]) reg := by
  intro s hs
  rcases List.mem_append.1 hs with hs | hs
  · exact h s hs
  · simp only [List.mem_singleton] at hs; subst hs; exact hc

theorem Cover.grow {P reg : List N} (h : Cover fold P reg) (c : N) : Cover fold P (reg ++ [c]) := by
  intro s hs
  rw [lookupFold_append]
  have := h s hs
  cases hl : lookupFold fold reg s with
  | none => rw [hl] at this; cases this
  | some y => rfl

theorem Cover.none {P reg : List N} {c : N} (h : Cover fold P reg) (hc : lookupFold fold reg c = none) :
    ∀ s ∈ P, fold s ≠ fold c := by
  intro s hs he
  have := h s hs
  rw [lookupFold_congr fold he, hc] at this
  cases this

theorem lookupFold_self_snoc (reg : List N) (c : N) : (lookupFold fold (reg ++ [c]) c).isSome = true := by
  rw [lookupFold_append, lookupFold_singleton, if_pos rfl]
  cases lookupFold fold reg c <;> rfl

/-- `_load_caps` on a re-cased capability list: the same standardised list and the same registry -/
theorem loadCaps_recase : ∀ (cs cs' seen seen' reg P : List N), RecasedFrom fold P cs cs' →
    (∀ x, (lookupFold fold seen x).isSome = (lookupFold fold seen' x).isSome) →
    Cover fold P reg → Cover fold seen reg →
    loadCaps fold cs seen reg = loadCaps fold cs' seen' reg ∧ Cover fold (P ++ cs) (loadCaps fold cs seen reg).2
  | [], [], _, _, reg, P, _, _, hP, _ => ⟨rfl, by simpa [loadCaps] using hP⟩
  | [], _ :: _, _, _, _, _, h, _, _, _ => h.elim
  | _ :: _, [], _, _, _, _, h, _, _, _ => h.elim
  | c :: cs, c' :: cs', seen, seen', reg, P, h, hs, hP, hS => by
    obtain ⟨hf, hfirst, hrest⟩ := h
    have happ : P ++ c :: cs = (P ++ [c]) ++ cs := by simp
    rw [happ]
    have hseen' := hs c
    rw [lookupFold_isSome_congr fold (l := seen') hf] at hseen'
    rw [loadCaps, loadCaps]
    cases h1 : lookupFold fold seen c with
    | some y =>
      rw [h1] at hseen'
      obtain ⟨y', hy'⟩ := Option.isSome_iff_exists.1 hseen'.symm
      rw [hy']
      have hy := lookupFold_some fold h1
      have hc : (lookupFold fold reg c).isSome = true := by
        rw [← lookupFold_isSome_congr fold hy.2]; exact hS y hy.1
      exact loadCaps_recase cs cs' seen seen' reg (P ++ [c]) hrest hs (hP.snoc fold hc) hS
    | none =>
      rw [h1] at hseen'
      have h1' : lookupFold fold seen' c' = none := by
        cases hl : lookupFold fold seen' c' with
        | none => rfl
        | some z => rw [hl] at hseen'; cases hseen'
      rw [h1']
      have hs' : ∀ x, (lookupFold fold (c :: seen) x).isSome = (lookupFold fold (c' :: seen') x).isSome := by
        intro x
        rw [lookupFold_cons, lookupFold_cons, ← hf]
        by_cases hx : fold c = fold x
        · simp [hx]
        · simp [hx, hs x]
      rw [← lookupFold_congr fold hf]
      cases h2 : lookupFold fold reg c with
      | some s =>
        have hc : (lookupFold fold reg c).isSome = true := by rw [h2]; rfl
        have hS' : Cover fold (c :: seen) reg := by
          intro z hz
          rcases List.mem_cons.1 hz with rfl | hz
          · exact hc
          · exact hS z hz
        have ih := loadCaps_recase cs cs' (c :: seen) (c' :: seen') reg (P ++ [c]) hrest hs' (hP.snoc fold hc) hS'
        exact ⟨by simp only [ih.1], ih.2⟩
      | none =>
        have hcc : c = c' := hfirst (hP.none fold h2)
        subst hcc
        have hS' : Cover fold (c :: seen) (reg ++ [c]) := by
          intro z hz
          rcases List.mem_cons.1 hz with rfl | hz
          · exact lookupFold_self_snoc fold reg _
          · exact (Cover.grow fold hS c) z hz
        have ih := loadCaps_recase cs cs' (c :: seen) (c :: seen') (reg ++ [c]) (P ++ [c]) hrest hs'
          ((hP.grow fold c).snoc fold (lookupFold_self_snoc fold reg c)) hS'
        exact ⟨by simp only [ih.1], ih.2⟩

/-- unit lists related as in a re-cased description: same names, widths, locks; capability lists re-cased relative
to all earlier capability occurrences `P`; memory-access lists pointwise related by `A` -/
def UnitsRel (A : N → N → Prop) : List N → List (UnitD N) → List (UnitD N) → Prop
  | _, [], [] => True
  | P, u :: us, v :: vs =>
    u.name = v.name ∧ u.width = v.width ∧ u.rd = v.rd ∧ u.wr = v.wr ∧ RecasedFrom fold P u.caps v.caps ∧
      Forall2 A u.acl v.acl ∧ UnitsRel A (P ++ u.caps) us vs
  | _, _, _ => False

/-- graph nodes that differ at most in their raw memory-access lists -/
def NodeRel (A : N → N → Prop) (n n' : GNode N) : Prop :=
  n.name = n'.name ∧ n.width = n'.width ∧ n.caps = n'.caps ∧ n.rd = n'.rd ∧ n.wr = n'.wr ∧ Forall2 A n.acl n'.acl

/-- the `_add_unit` loop on re-cased units: the same error, or the same registry and nodes differing at most in
the raw memory-access lists -/
theorem addUnits_recase (A : N → N → Prop) : ∀ (us us' : List (UnitD N)) (names reg P : List N),
    UnitsRel fold A P us us' → Cover fold P reg →
    match addUnits fold us names reg, addUnits fold us' names reg with
    | .error e, .error e' => e = e'
    | .ok r, .ok r' => r.2 = r'.2 ∧ Cover fold (P ++ us.flatMap (·.caps)) r.2 ∧ Forall2 (NodeRel A) r.1 r'.1
    | _, _ => False
  | [], [], _, reg, P, _, hP => by simpa [addUnits, Forall2] using hP
  | [], _ :: _, _, _, _, h, _ => h.elim
  | _ :: _, [], _, _, _, h, _ => h.elim
  | u :: us, v :: vs, names, reg, P, h, hP => by
    obtain ⟨hn, hw, hrd, hwr, hcaps, hacl, hrest⟩ := h
    simp only [addUnits, ← hn, ← hw]
    cases lookupFold fold names u.name with
    | some old => rfl
    | none =>
      simp only
      by_cases hwd : u.width ≤ 0
      · simp only [hwd, ↓reduceIte]
      · simp only [hwd, ↓reduceIte]
        obtain ⟨hl, hcov⟩ := loadCaps_recase fold u.caps v.caps [] [] reg P hcaps (fun _ => rfl) hP
          (fun _ h => by simp at h)
        rw [← hl]
        have ih := addUnits_recase A us vs (names ++ [u.name]) (loadCaps fold u.caps [] reg).2 (P ++ u.caps) hrest hcov
        revert ih
        cases addUnits fold us (names ++ [u.name]) (loadCaps fold u.caps [] reg).2 with
        | error e =>
          cases addUnits fold vs (names ++ [u.name]) (loadCaps fold u.caps [] reg).2 with
          | error e' => intro ih; simpa using ih
          | ok r' => exact id
        | ok r =>
          cases addUnits fold vs (names ++ [u.name]) (loadCaps fold u.caps [] reg).2 with
          | error e' => exact id
          | ok r' =>
            intro ih
            refine ⟨ih.1, ?_, ⟨rfl, rfl, rfl, hrd, hwr, hacl⟩, ih.2.2⟩
            simpa [List.flatMap_cons] using ih.2.1

end Stage1

/-! ## §3 stage 2: connections -/

section Stage2
variable {N : Type}

/-- two results agree: the same value, or errors related by `R` -/
def ExRel {ε α : Type} (R : ε → ε → Prop) : Except ε α → Except ε α → Prop
  | .ok a, .ok b => a = b
  | .error e, .error e' => R e e'
  | _, _ => False

theorem ExRel.refl {ε α : Type} {R : ε → ε → Prop} (hR : ∀ e, R e e) (x : Except ε α) : ExRel R x x := by
  cases x with
  | ok a => exact rfl
  | error e => exact hR e

theorem ExRel.of_eq {ε α : Type} {R : ε → ε → Prop} (hR : ∀ e, R e e) {x y : Except ε α} (h : x = y) : ExRel R x y :=
  h ▸ ExRel.refl hR x

theorem ExRel.toOption_eq {ε α : Type} {R : ε → ε → Prop} {x y : Except ε α} (h : ExRel R x y) :
    x.toOption = y.toOption := by
  cases x <;> cases y <;> first | exact h.elim | (simp only [ExRel] at h; simp [Except.toOption, h])

theorem ExRel.isOk_eq {ε α : Type} {R : ε → ε → Prop} {x y : Except ε α} (h : ExRel R x y) : x.isOk = y.isOk := by
  cases x <;> cases y <;> first | exact h.elim | rfl

/-- apply `f` to every name an error carries -/
def mapErr (f : N → N) : LoadError N → LoadError N
  | .dupElem o n => .dupElem (f o) (f n)
  | .badWidth u w => .badWidth (f u) w
  | .badEdge e => .badEdge (e.map f)
  | .undefElem x => .undefElem (f x)
  | .cyclic => .cyclic
  | .deadInput p => .deadInput (f p)
  | .emptyProc => .emptyProc
  | .pathLock s t c => .pathLock (f s) t (f c)
  | .blockedCap c p => .blockedCap (f c) (f p)

theorem cls_mapErr (f : N → N) (e : LoadError N) : (mapErr f e).cls = e.cls := by cases e <;> rfl

/-- the same exception class, the names it carries equal up to case -/
def ErrSame (fold : N → N) (e e' : LoadError N) : Prop := mapErr fold e = mapErr fold e'

theorem ErrSame.refl (fold : N → N) (e : LoadError N) : ErrSame fold e e := rfl

theorem ErrSame.cls_eq {fold : N → N} {e e' : LoadError N} (h : ErrSame fold e e') : e.cls = e'.cls := by
  rw [← cls_mapErr fold e, ← cls_mapErr fold e', h]

variable [DecidableEq N] (fold : N → N)

/-- the `_add_edge` loop on re-cased connections: the same standardised connections, or the same kind of error -/
theorem addEdges_recase (names : List N) : ∀ (es es' : List (List N)) (acc : List (N × N)),
    Forall2 (Forall2 (SameFold fold)) es es' →
    ExRel (ErrSame fold) (addEdges fold names es acc) (addEdges fold names es' acc)
  | [], [], _, _ => rfl
  | [], _ :: _, _, h => h.elim
  | _ :: _, [], _, h => h.elim
  | e :: es, e' :: es', acc, h => by
    obtain ⟨he, hrest⟩ := h
    have hmap : e.map fold = e'.map fold := Forall2.map_eq (fun _ _ h => h) he
    have bad : ExRel (ErrSame fold) (Except.error (.badEdge e) : Except _ (List (N × N))) (.error (.badEdge e')) := by
      show mapErr fold _ = mapErr fold _
      simp only [mapErr, hmap]
    match e, e', he with
    | [], [], _ => exact bad
    | [_], [_], _ => exact bad
    | _ :: _ :: _ :: _, _ :: _ :: _ :: _, _ => exact bad
    | [a, b], [a', b'], he =>
      have ha : fold a = fold a' := he.1
      have hb : fold b = fold b' := he.2.1
      simp only [addEdges]
      rw [← lookupFold_congr fold ha, ← lookupFold_congr fold hb]
      cases lookupFold fold names a with
      | none => show mapErr fold _ = mapErr fold _; simp only [mapErr, ha]
      | some x =>
        cases lookupFold fold names b with
        | none => show mapErr fold _ = mapErr fold _; simp only [mapErr, hb]
        | some y => exact addEdges_recase names es es' _ hrest
    | [], _ :: _, he => exact he.elim
    | _ :: _, [], he => exact he.elim
    | [_], _ :: _ :: _, he => exact he.2.elim
    | _ :: _ :: _, [_], he => exact he.2.elim
    | [_, _], _ :: _ :: _ :: _, he => exact he.2.2.elim
    | _ :: _ :: _ :: _, [_, _], he => exact he.2.2.elim

end Stage2

/-! ## §4 nothing after `_create_graph` reads the raw memory-access lists -/

section MapAcl
attribute [local implicit_reducible] ProcSim.AMap
variable {N : Type} [DecidableEq N]

/-- rewrite the raw memory-access list of a node -/
def mapAclN (f : List N → List N) (n : GNode N) : GNode N := { n with acl := f n.acl }

/-- rewrite the raw memory-access lists of all nodes -/
def mapAcl (f : List N → List N) (g : Graph N) : Graph N := ⟨g.nodes.map (mapAclN f), g.edges⟩

variable (f : List N → List N) (g : Graph N)

@[simp] theorem mapAcl_edges : (mapAcl f g).edges = g.edges := rfl
theorem mapAcl_mk (ns : List (GNode N)) (es : List (N × N)) :
    (⟨ns.map (mapAclN f), es⟩ : Graph N) = mapAcl f ⟨ns, es⟩ := rfl
@[simp] theorem mapAclN_name (n : GNode N) : (mapAclN f n).name = n.name := rfl
@[simp] theorem mapAclN_caps (n : GNode N) : (mapAclN f n).caps = n.caps := rfl
@[simp] theorem mapAclN_rd (n : GNode N) : (mapAclN f n).rd = n.rd := rfl
@[simp] theorem mapAclN_wr (n : GNode N) : (mapAclN f n).wr = n.wr := rfl
@[simp] theorem mapAclN_width (n : GNode N) : (mapAclN f n).width = n.width := rfl

@[simp] theorem mapAcl_names : (mapAcl f g).names = g.names := by
  simp only [Graph.names, mapAcl, List.map_map]
  rfl

@[simp] theorem mapAcl_length : (mapAcl f g).nodes.length = g.nodes.length := by simp [mapAcl]
@[simp] theorem mapAcl_preds (u : N) : (mapAcl f g).preds u = g.preds u := rfl
@[simp] theorem mapAcl_succs (u : N) : (mapAcl f g).succs u = g.succs u := rfl
@[simp] theorem mapAcl_inPorts : (mapAcl f g).inPorts = g.inPorts := by simp [Graph.inPorts]
@[simp] theorem mapAcl_outPorts : (mapAcl f g).outPorts = g.outPorts := by simp [Graph.outPorts]

theorem mapAcl_node? (u : N) : (mapAcl f g).node? u = (g.node? u).map (mapAclN f) := by
  simp only [Graph.node?, mapAcl, List.find?_map]
  rfl

@[simp] theorem mapAcl_capsOf (u : N) : (mapAcl f g).capsOf u = g.capsOf u := by
  simp only [Graph.capsOf, mapAcl_node?]
  cases g.node? u <;> rfl

@[simp] theorem mapAcl_topoOrder : topoOrder (mapAcl f g) = topoOrder g := by simp [topoOrder]
@[simp] theorem mapAcl_isAcyclic : isAcyclic (mapAcl f g) = isAcyclic g := by simp [isAcyclic]

theorem mapAcl_setCaps (u : N) (cs : List N) : (mapAcl f g).setCaps u cs = mapAcl f (g.setCaps u cs) := by
  simp only [Graph.setCaps, mapAcl, List.map_map]
  congr 1
  apply List.map_congr_left
  intro n _
  simp only [Function.comp, mapAclN_name]
  by_cases h : n.name = u <;> simp [h, mapAclN]

theorem mapAcl_removeNodes (dead : List N) : (mapAcl f g).removeNodes dead = mapAcl f (g.removeNodes dead) := by
  simp only [Graph.removeNodes, mapAcl, List.filter_map]
  rfl

theorem mapAcl_cleanUnit (u : N) : cleanUnit (mapAcl f g) u = mapAcl f (cleanUnit g u) := by
  unfold cleanUnit
  simp only [mapAcl_preds, mapAcl_capsOf, mapAcl_edges, mapAcl_setCaps]
  split <;> rfl

theorem mapAcl_foldl_cleanUnit (l : List N) : ∀ g : Graph N,
    l.foldl cleanUnit (mapAcl f g) = mapAcl f (l.foldl cleanUnit g) := by
  induction l with
  | nil => intro g; rfl
  | cons u l ih => intro g; simp only [List.foldl_cons, mapAcl_cleanUnit, ih]

theorem mapAcl_cleanStruct : cleanStruct (mapAcl f g) = mapAcl f (cleanStruct g) := by
  simp only [cleanStruct, mapAcl_topoOrder, mapAcl_foldl_cleanUnit]

theorem mapAcl_rmEmpty : rmEmpty (mapAcl f g) = mapAcl f (rmEmpty g) := by
  unfold rmEmpty
  rw [mapAcl_removeNodes]
  congr 2
  simp only [mapAcl, List.filter_map, List.map_map]
  rfl

theorem mapAcl_chkTerminals (in0 out0 : List N) : ∀ (fuel : Nat) (g : Graph N),
    chkTerminals in0 out0 fuel (mapAcl f g) = (chkTerminals in0 out0 fuel g).map (mapAcl f)
  | 0, g => rfl
  | fuel + 1, g => by
    simp only [chkTerminals, mapAcl_outPorts, mapAcl_removeNodes]
    split
    · rfl
    · split
      · rfl
      · exact mapAcl_chkTerminals in0 out0 fuel _

@[simp] theorem mapAcl_capUnits : capUnits (mapAcl f g) = capUnits g := by simp [capUnits]

@[simp] theorem mapAcl_capSuccs (cap u : N) : capSuccs (mapAcl f g) cap u = capSuccs g cap u := by simp [capSuccs]

@[simp] theorem mapAcl_chkPathLocks (cap : N) (locks : Locks N) (u : N) :
    chkPathLocks (mapAcl f g) cap locks u = chkPathLocks g cap locks u := by
  unfold chkPathLocks
  simp only [mapAcl_capSuccs, mapAcl_node?]
  cases g.node? u <;> rfl

@[simp] theorem mapAcl_lockPass (cap : N) : ∀ (us : List N) (l : Locks N),
    lockPass (mapAcl f g) cap us l = lockPass g cap us l
  | [], _ => rfl
  | u :: us, l => by
    simp only [lockPass, mapAcl_chkPathLocks]
    split
    · rfl
    · exact mapAcl_lockPass cap us _

@[simp] theorem mapAcl_reachPass (cap : N) (outs : List N) : ∀ (us acc : List N),
    reachPass (mapAcl f g) cap outs us acc = reachPass g cap outs us acc
  | [], _ => rfl
  | u :: us, acc => by
    simp only [reachPass, mapAcl_capSuccs, mapAcl_reachPass cap outs us]

@[simp] theorem mapAcl_chkCapList (post outs : List N) (multi : Bool) : ∀ (l : List (N × List N)),
    chkCapList (mapAcl f g) post outs multi l = chkCapList g post outs multi l
  | [] => rfl
  | (cap, ports) :: rest => by
    simp only [chkCapList, mapAcl_capsOf, mapAcl_lockPass, mapAcl_reachPass, mapAcl_chkCapList post outs multi rest]

@[simp] theorem mapAcl_chkCaps : chkCaps (mapAcl f g) = chkCaps g := by simp [chkCaps]

/-- `_prep_proc_desc` commutes with rewriting the raw memory-access lists -/
theorem mapAcl_prepare : prepare (mapAcl f g) = (prepare g).map (mapAcl f) := by
  unfold prepare
  simp only [mapAcl_isAcyclic, mapAcl_inPorts, mapAcl_outPorts, mapAcl_cleanStruct, mapAcl_rmEmpty, mapAcl_length,
    mapAcl_chkTerminals]
  split
  · rfl
  · cases chkTerminals g.inPorts g.outPorts ((rmEmpty (cleanStruct g)).nodes.length + 1) (rmEmpty (cleanStruct g)) with
    | error e => rfl
    | ok g2 =>
      simp only [Except.map, mapAcl_names, mapAcl_chkCaps]
      split
      · rfl
      · cases chkCaps g2 <;> rfl

end MapAcl

/-! ## §5 `load_proc_desc` -/

section Load
variable {N : Type} [DecidableEq N] [LT N] [DecidableRel (α := N) (· < ·)] (fold : N → N)

theorem stdCap_idem (reg : List N) (c : N) : stdCap fold reg (stdCap fold reg c) = stdCap fold reg c := by
  unfold stdCap
  cases h : lookupFold fold reg c with
  | none => simp [h]
  | some s =>
    have := (lookupFold_some fold h).2
    simp only [Option.getD_some]
    rw [lookupFold_congr fold this, h]
    rfl

/-- standard spellings of re-cased references agree, provided the registry covers the capabilities `P` and a
reference to none of them is left as it is -/
theorem stdCap_recase {reg P : List N} (hP : Cover fold P reg) {c c' : N} (hf : fold c = fold c')
    (hfirst : (∀ x ∈ P, fold x ≠ fold c) → c = c') : stdCap fold reg c = stdCap fold reg c' := by
  unfold stdCap
  rw [← lookupFold_congr fold hf]
  cases h : lookupFold fold reg c with
  | none => simpa using hfirst (hP.none fold h)
  | some s => rfl

theorem mkModel_mapAclN (reg : List N) (n : GNode N) :
    mkModel fold reg (mapAclN (List.map (stdCap fold reg)) n) = mkModel fold reg n := by
  simp only [mkModel, mapAclN, List.map_map]
  congr 3
  funext c
  exact stdCap_idem fold reg c

theorem filter_map_mapAclN {β : Type} (f : List N → List N) (p : GNode N → Bool) (h : GNode N → β)
    (hp : ∀ n, p (mapAclN f n) = p n) (hh : ∀ n, h (mapAclN f n) = h n) (l : List (GNode N)) :
    ((l.map (mapAclN f)).filter p).map h = (l.filter p).map h := by
  induction l with
  | nil => rfl
  | cons a l ih =>
    simp only [List.map_cons, List.filter_cons, hp]
    split <;> simp [hh, ih]

/-- `_make_processor` standardises the memory-access lists itself -/
theorem makeProcessor_mapAcl (reg : List N) (g : Graph N) :
    makeProcessor fold reg (mapAcl (List.map (stdCap fold reg)) g) = makeProcessor fold reg g := by
  unfold makeProcessor
  simp only [mapAcl_preds, mapAcl_succs]
  congr 1
  all_goals
    exact filter_map_mapAclN _ _ _ (fun _ => rfl) (fun n => by simp only [mkModel_mapAclN, mapAclN_name]) _

/-- everything `load_proc_desc` does after `_create_graph` -/
def finish (reg : List N) (g : Graph N) : Except (LoadError N) (Proc N) :=
  match prepare g with
  | .error e => .error e
  | .ok g2 =>
    match makeProcessor fold reg g2 with
    | some p => .ok p
    | none => .error .cyclic

theorem load_eq_finish (d : Desc N) :
    load fold d =
      match addUnits fold d.units [] [] with
      | .error e => .error e
      | .ok r =>
        match addEdges fold (r.1.map (·.name)) d.edges [] with
        | .error e => .error e
        | .ok es => finish fold r.2 ⟨r.1, es⟩ := by
  unfold load createGraph finish
  cases addUnits fold d.units [] [] with
  | error e => rfl
  | ok r =>
    simp only
    cases addEdges fold (r.1.map (·.name)) d.edges [] <;> rfl

theorem finish_mapAcl (reg : List N) (g : Graph N) :
    finish fold reg (mapAcl (List.map (stdCap fold reg)) g) = finish fold reg g := by
  unfold finish
  rw [mapAcl_prepare]
  cases prepare g with
  | error e => rfl
  | ok g2 => simp only [Except.map, makeProcessor_mapAcl]

theorem mapAclN_eq_of_nodeRel {A : N → N → Prop} {S : N → N} (hS : ∀ c c', A c c' → S c = S c') {n n' : GNode N}
    (h : NodeRel A n n') : mapAclN (List.map S) n = mapAclN (List.map S) n' := by
  obtain ⟨h1, h2, h3, h4, h5, h6⟩ := h
  cases n; cases n'
  simp only at h1 h2 h3 h4 h5 h6
  subst h1 h2 h3 h4 h5
  simp only [mapAclN, GNode.mk.injEq, true_and]
  exact Forall2.map_eq hS h6

/-- **the loader on a re-cased description** (relations in unbundled form): the same processor, or the same kind
of error -/
theorem load_recase_core (A : N → N → Prop) {d d' : Desc N}
    (hu : UnitsRel fold A [] d.units d'.units)
    (hA : ∀ c c', A c c' → fold c = fold c' ∧ ((∀ x ∈ d.units.flatMap (·.caps), fold x ≠ fold c) → c = c'))
    (he : Forall2 (Forall2 (SameFold fold)) d.edges d'.edges) :
    ExRel (ErrSame fold) (load fold d) (load fold d') := by
  have h1 := addUnits_recase fold A d.units d'.units [] [] [] hu (Cover.nil fold [])
  rw [load_eq_finish, load_eq_finish]
  revert h1
  cases addUnits fold d.units [] [] with
  | error e =>
    cases addUnits fold d'.units [] [] with
    | error e' => intro h1; simp only at h1; subst h1; exact ErrSame.refl fold e
    | ok r' => exact fun h => False.elim h
  | ok r =>
    cases addUnits fold d'.units [] [] with
    | error e' => exact fun h => False.elim h
    | ok r' =>
      intro h1
      obtain ⟨hreg, hcov, hnodes⟩ := h1
      simp only [List.nil_append] at hcov
      have hnames : r.1.map (·.name) = r'.1.map (·.name) := Forall2.map_eq (fun _ _ h => h.1) hnodes
      have h2 := addEdges_recase fold (r.1.map (·.name)) d.edges d'.edges [] he
      simp only [← hnames, ← hreg]
      revert h2
      cases addEdges fold (r.1.map (·.name)) d.edges [] with
      | error e =>
        cases addEdges fold (r.1.map (·.name)) d'.edges [] with
        | error e' => exact id
        | ok es' => exact fun h => False.elim h
      | ok es =>
        cases addEdges fold (r.1.map (·.name)) d'.edges [] with
        | error e' => exact fun h => False.elim h
        | ok es' =>
          intro h2
          simp only [ExRel] at h2
          subst h2
          simp only
          have hS : ∀ c c', A c c' → stdCap fold r.2 c = stdCap fold r.2 c' := fun c c' h =>
            stdCap_recase fold hcov (hA c c' h).1 (hA c c' h).2
          have hg : mapAcl (List.map (stdCap fold r.2)) ⟨r.1, es⟩ = mapAcl (List.map (stdCap fold r.2)) ⟨r'.1, es⟩ := by
            simp only [mapAcl]
            congr 1
            exact Forall2.map_eq (fun _ _ h => mapAclN_eq_of_nodeRel hS h) hnodes
          apply ExRel.of_eq (ErrSame.refl fold)
          rw [← finish_mapAcl fold r.2 ⟨r.1, es⟩, hg, finish_mapAcl]

end Load

/-- unit lists of a re-cased description, from the flat reading: capability occurrences in description order -/
theorem unitsRel_of_flat {N : Type} (fold : N → N) (A : N → N → Prop) : ∀ (P : List N) (us us' : List (UnitD N)),
    Forall2 (fun u u' => u.name = u'.name ∧ u.width = u'.width ∧ u.rd = u'.rd ∧ u.wr = u'.wr ∧
      u.caps.length = u'.caps.length ∧ Forall2 A u.acl u'.acl) us us' →
    RecasedFrom fold P (us.flatMap (·.caps)) (us'.flatMap (·.caps)) → UnitsRel fold A P us us'
  | _, [], [], _, _ => trivial
  | _, [], _ :: _, h, _ => h.elim
  | _, _ :: _, [], h, _ => h.elim
  | P, u :: us, v :: vs, h, hc => by
    obtain ⟨⟨h1, h2, h3, h4, h5, h6⟩, hrest⟩ := h
    simp only [List.flatMap_cons] at hc
    rw [RecasedFrom.append_iff fold h5] at hc
    exact ⟨h1, h2, h3, h4, hc.1, h6, unitsRel_of_flat fold A (P ++ u.caps) us vs hrest hc.2⟩

/-! ## §6 instruction sets -/

section IsaS
attribute [local implicit_reducible] ProcSim.AMap
open ICase (lower upper)
open Isa (Str IsaError CompileError createIsa loadIsa compileProgram)

/-- two results agree: values related by `S`, or errors related by `R` -/
def ExRel2 {ε α : Type} (R : ε → ε → Prop) (S : α → α → Prop) : Except ε α → Except ε α → Prop
  | .ok a, .ok b => S a b
  | .error e, .error e' => R e e'
  | _, _ => False

/-- the same error of `load_isa`, the texts it carries equal up to case -/
def IsaErrSame : IsaError → IsaError → Prop
  | .dupInstr o n, .dupInstr o' n' => lower o = lower o' ∧ lower n = lower n'
  | .undefCap c, .undefCap c' => lower c = lower c'
  | _, _ => False

/-- an instruction set with re-cased capability values (and mnemonics) -/
abbrev IsaEntrySame (e e' : Str × Str) : Prop := lower e.1 = lower e'.1 ∧ lower e.2 = lower e'.2

def OptSame : Option Str → Option Str → Prop
  | some a, some b => lower a = lower b
  | none, none => True
  | _, _ => False

theorem get?_set (m : AMap Str Str) (k v k' : Str) :
    AMap.get? (AMap.set m k v) k' = if k = k' then some v else AMap.get? m k' := by
  by_cases h : k = k'
  · subst h; simp
  · simp [h, AMap.get?_set_ne m v h]

theorem createIsa_recase (capReg : Isa.Registry) : ∀ (l l' : List (Str × Str)) (ir ir' acc : AMap Str Str),
    Forall2 IsaEntrySame l l' → (∀ k, OptSame (AMap.get? ir k) (AMap.get? ir' k)) →
    ExRel IsaErrSame (createIsa capReg ir acc l) (createIsa capReg ir' acc l')
  | [], [], _, _, _, _, _ => rfl
  | [], _ :: _, _, _, _, h, _ => h.elim
  | _ :: _, [], _, _, _, h, _ => h.elim
  | (i, c) :: l, (i', c') :: l', ir, ir', acc, h, hr => by
    obtain ⟨⟨hi, hc⟩, hrest⟩ := h
    simp only at hi hc
    have hu : upper i = upper i' := IsaLemmas.upper_eq_iff_lower_eq.2 hi
    simp only [createIsa, ← hi, ← hc, ← hu]
    have hk := hr (lower i)
    revert hk
    cases AMap.get? ir (lower i) with
    | some o =>
      cases AMap.get? ir' (lower i) with
      | some o' => intro hk; exact ⟨hk, hi⟩
      | none => exact fun h => False.elim h
    | none =>
      cases AMap.get? ir' (lower i) with
      | some o' => exact fun h => False.elim h
      | none =>
        intro _
        simp only
        cases AMap.get? capReg (lower c) with
        | none => exact hc
        | some std =>
          refine createIsa_recase capReg l l' _ _ _ hrest ?_
          intro k
          rw [get?_set, get?_set]
          by_cases hk : lower i = k
          · simp only [hk, ↓reduceIte]; exact hi
          · simp only [hk, ↓reduceIte]; exact hr k

end IsaS

/-! ## §7 programs -/

section Prog
attribute [local implicit_reducible] ProcSim.AMap
open ICase (lower upper)
open Program Spec.Text ProgramLemmas
open Isa (CompileError compileProgram)

/-- the instruction `read_program` returns for a written one -/
def toProg (w : Written) : ProgInstr := { srcs := sortedUniq w.srcs, dst := w.dst, name := w.name, line := w.line }

/-- **C14 in exact form**: the parser's answer *is* the meaning of the written list (sources as sorted sets) -/
theorem readLines_render_eq (tail : List (List Char)) (htail : ∀ b ∈ tail, Blank b) (is : List SrcInstr) :
    ∀ (ws : List LineWs) (seen : List (List Char)) (reg : Registry) (n : Nat), RegInv reg seen →
      (∀ i ∈ is, instrOK i = true) → (∀ w ∈ ws, wsOK w = true) →
      readLines reg n (renderProgram is ws tail) = (expectedFrom seen n is ws).map (List.map toProg) := by
  induction is with
  | nil =>
    intro ws seen reg n _ _ _
    have h1 : renderProgram [] ws tail = tail := by cases ws <;> rfl
    have h2 : expectedFrom seen n [] ws = .ok [] := by cases ws <;> rfl
    rw [h1, h2, readLines_all_blank reg n tail htail]
    rfl
  | cons i is ih =>
    intro ws seen reg n hinv his hws
    obtain ⟨hname, hopnd⟩ := instrOK_iff.1 (his i (by simp))
    obtain ⟨hbl, hpre, hsep, hsne, hcs, hpost⟩ := wsOK_iff.1 (wsOK_headD hws)
    have his' : ∀ j ∈ is, instrOK j = true := fun j hj => his j (List.mem_cons_of_mem _ hj)
    rw [renderProgram_cons, readLines_blanks reg _ _ n hbl]
    generalize hln : n + (ws.headD {}).blanks.length = ln
    have hstep : ∀ rest, readLines reg ln (renderLine i (ws.headD {}) :: rest) =
        match createInstr ln (strip (renderLine i (ws.headD {}))) reg with
        | .error e => .error e
        | .ok (ins, reg') =>
          match readLines reg' (ln + 1) rest with
          | .error e => .error e
          | .ok r => .ok (ins :: r) := by
      intro rest
      rw [readLines]
      simp only [strip_renderLine_ne_nil i _ hname hpre hpost, Bool.false_eq_true, ↓reduceIte]
      rfl
    rw [hstep]
    by_cases hno : i.ops = [] ∨ i.ops = [[]]
    · rw [createInstr_render_noOps i _ ln reg hname hpre hsep hpost hno, expectedFrom_noOps seen n i is ws hno, hln]
      rfl
    · obtain ⟨o, os, hops, hne⟩ : ∃ o os, i.ops = o :: os ∧ ¬ (o = [] ∧ os = []) := by
        cases h : i.ops with
        | nil => exact absurd (.inl h) hno
        | cons o os => exact ⟨o, os, rfl, fun e => hno (.inr (by rw [h, e.1, e.2]))⟩
      have hop : ∀ x ∈ o :: os, Opnd x := fun x hx => (hopnd x (hops ▸ hx)).1
      rw [createInstr_render_ops i _ ln reg o os hname hpre hsep hsne hcs hpost hops hop hne,
        expectedFrom_ops seen n i is ws o os hops hne, hln]
      cases hfe : firstEmpty 1 (o :: os) with
      | some k =>
        rw [createOps_error ln i.name o os reg k hfe]
        rfl
      | none =>
        obtain ⟨reg', hc, hinv'⟩ := createOps_ok ln i.name o os reg seen hfe hinv
        rw [hc]
        simp only [ih ws.tail (seen ++ o :: os) reg' (ln + 1) hinv' his' (wsOK_tail hws)]
        cases expectedFrom (seen ++ o :: os) (ln + 1) is ws.tail <;> rfl

/-- `read_program` on a rendered text, in exact form -/
theorem readProgram_render (is : List SrcInstr) (ws : List LineWs) (tail : List (List Char))
    (his : ∀ i ∈ is, instrOK i = true) (hws : ∀ w ∈ ws, wsOK w = true) (htail : ∀ l ∈ tail, blankB l = true) :
    readProgram (renderProgram is ws tail) = (expected is ws).map (List.map toProg) :=
  readLines_render_eq tail (fun b hb => blankB_iff.1 (htail b hb)) is ws [] [] 1 RegInv.nil his hws

/-- the same registry content: every look-up answers alike -/
def SeenEq (seen seen' : List (List Char)) : Prop :=
  ∀ x, seen.find? (fun s => lower s == lower x) = seen'.find? (fun s => lower s == lower x)

theorem find?_lower_eq_none {seen : List (List Char)} {x : List Char} :
    seen.find? (fun s => lower s == lower x) = none ↔ ∀ s ∈ seen, lower s ≠ lower x := by
  simp [List.find?_eq_none]

theorem seen_step {seen seen' : List (List Char)} {o o' : List Char} (h : SeenEq seen seen')
    (hf : lower o = lower o') (hfirst : (∀ s ∈ seen, lower s ≠ lower o) → o = o') :
    firstSpelling seen o = firstSpelling seen' o' ∧ SeenEq (seen ++ [o]) (seen' ++ [o']) := by
  have hk : seen'.find? (fun s => lower s == lower o') = seen.find? (fun s => lower s == lower o) := by
    rw [← hf]; exact (h o).symm
  constructor
  · unfold firstSpelling
    rw [hk]
    cases hfo : seen.find? (fun s => lower s == lower o) with
    | some s => rfl
    | none => exact hfirst (find?_lower_eq_none.1 hfo)
  · intro x
    rw [List.find?_append, List.find?_append, ← h x, find_single, find_single, ← hf]
    cases hx : seen.find? (fun s => lower s == lower x) with
    | some s => rfl
    | none =>
      by_cases e : lower o = lower x
      · have : o = o' := hfirst (by rw [e]; exact find?_lower_eq_none.1 hx)
        rw [this]
      · simp [e]

theorem stdOps_recase : ∀ (os os' seen seen' : List (List Char)), RecasedFrom lower seen os os' → SeenEq seen seen' →
    stdOps seen os = stdOps seen' os' ∧ SeenEq (seen ++ os) (seen' ++ os')
  | [], [], seen, seen', _, h => ⟨rfl, by simpa using h⟩
  | [], _ :: _, _, _, h, _ => h.elim
  | _ :: _, [], _, _, h, _ => h.elim
  | o :: os, o' :: os', seen, seen', h, hs => by
    obtain ⟨hf, hfirst, hrest⟩ := h
    obtain ⟨h1, h2⟩ := seen_step hs hf hfirst
    obtain ⟨h3, h4⟩ := stdOps_recase os os' (seen ++ [o]) (seen' ++ [o']) hrest h2
    refine ⟨by simp only [stdOps, h1, h3], ?_⟩
    simpa using h4

theorem isEmpty_of_lower_eq {o o' : List Char} (h : lower o = lower o') : o.isEmpty = o'.isEmpty := by
  have := congrArg List.length h
  simp only [lower, List.length_map] at this
  cases o <;> cases o' <;> simp_all

theorem firstEmpty_recase : ∀ (os os' : List (List Char)) (k : Nat), Forall2 (SameFold lower) os os' →
    firstEmpty k os = firstEmpty k os'
  | [], [], _, _ => rfl
  | [], _ :: _, _, h => h.elim
  | _ :: _, [], _, h => h.elim
  | o :: os, o' :: os', k, h => by
    simp only [firstEmpty, isEmpty_of_lower_eq h.1, firstEmpty_recase os os' (k + 1) h.2]

/-- written instruction lists related as in a re-cased program: mnemonics equal up to case; operand lists re-cased
relative to all earlier operand occurrences `seen` -/
def ProgRel : List (List Char) → List SrcInstr → List SrcInstr → Prop
  | _, [], [] => True
  | seen, i :: is, j :: js =>
    lower i.name = lower j.name ∧ RecasedFrom lower seen i.ops j.ops ∧ ProgRel (seen ++ i.ops) is js
  | _, _, _ => False

theorem progRel_of_flat : ∀ (P : List (List Char)) (is js : List SrcInstr),
    Forall2 (fun i j => lower i.name = lower j.name ∧ i.ops.length = j.ops.length) is js →
    RecasedFrom lower P (is.flatMap (·.ops)) (js.flatMap (·.ops)) → ProgRel P is js
  | _, [], [], _, _ => trivial
  | _, [], _ :: _, h, _ => h.elim
  | _, _ :: _, [], h, _ => h.elim
  | P, i :: is, j :: js, h, hc => by
    obtain ⟨⟨h1, h2⟩, hrest⟩ := h
    simp only [List.flatMap_cons] at hc
    rw [RecasedFrom.append_iff lower h2] at hc
    exact ⟨h1, hc.1, progRel_of_flat (P ++ i.ops) is js hrest hc.2⟩

/-- the same meaning of a line but for the letter case of the mnemonic -/
def WrittenSame (w w' : Written) : Prop :=
  lower w.name = lower w'.name ∧ w.dst = w'.dst ∧ w.srcs = w'.srcs ∧ w.line = w'.line

/-- the same syntax error: line and operand position equal, mnemonic equal up to case -/
def ParseErrSame : ParseError → ParseError → Prop
  | .noOperands l i, .noOperands l' i' => l = l' ∧ lower i = lower i'
  | .emptyOperand l i k, .emptyOperand l' i' k' => l = l' ∧ lower i = lower i' ∧ k = k'
  | _, _ => False

theorem ops_nil_or_single_recase {a b : List (List Char)} (h : Forall2 (SameFold lower) a b) :
    (a = [] ∨ a = [[]]) ↔ (b = [] ∨ b = [[]]) := by
  match a, b, h with
  | [], [], _ => simp
  | [], _ :: _, h => exact h.elim
  | _ :: _, [], h => exact h.elim
  | [o], [o'], h =>
    have := isEmpty_of_lower_eq h.1
    cases o <;> cases o' <;> simp_all
  | _ :: _ :: _, [_], h => exact h.2.elim
  | [_], _ :: _ :: _, h => exact h.2.elim
  | _ :: _ :: _, _ :: _ :: _, _ => simp

/-- **meaning of a re-cased program**: the same destinations, sources and line numbers, mnemonics equal up to
case; or the same syntax error -/
theorem expectedFrom_recase : ∀ (is js : List SrcInstr) (ws : List LineWs) (seen seen' : List (List Char)) (n : Nat),
    ProgRel seen is js → SeenEq seen seen' →
    ExRel2 ParseErrSame (Forall2 WrittenSame) (expectedFrom seen n is ws) (expectedFrom seen' n js ws)
  | [], [], ws, _, _, n, _, _ => by
    have h2 : ∀ s, expectedFrom s n [] ws = .ok [] := fun s => by cases ws <;> rfl
    rw [h2, h2]; exact trivial
  | [], _ :: _, _, _, _, _, h, _ => h.elim
  | _ :: _, [], _, _, _, _, h, _ => h.elim
  | i :: is, j :: js, ws, seen, seen', n, h, hs => by
    obtain ⟨hname, hops, hrest⟩ := h
    have hfa := RecasedFrom.forall2 lower hops
    by_cases hno : i.ops = [] ∨ i.ops = [[]]
    · rw [expectedFrom_noOps seen n i is ws hno, expectedFrom_noOps seen' n j js ws ((ops_nil_or_single_recase hfa).1 hno)]
      exact ⟨rfl, hname⟩
    · have hno' : ¬ (j.ops = [] ∨ j.ops = [[]]) := fun h => hno ((ops_nil_or_single_recase hfa).2 h)
      obtain ⟨o, os, hio, hne⟩ : ∃ o os, i.ops = o :: os ∧ ¬ (o = [] ∧ os = []) := by
        cases h : i.ops with
        | nil => exact absurd (.inl h) hno
        | cons o os => exact ⟨o, os, rfl, fun e => hno (.inr (by rw [h, e.1, e.2]))⟩
      obtain ⟨o', os', hjo, hne'⟩ : ∃ o os, j.ops = o :: os ∧ ¬ (o = [] ∧ os = []) := by
        cases h : j.ops with
        | nil => exact absurd (.inl h) hno'
        | cons o os => exact ⟨o, os, rfl, fun e => hno' (.inr (by rw [h, e.1, e.2]))⟩
      rw [expectedFrom_ops seen n i is ws o os hio hne, expectedFrom_ops seen' n j js ws o' os' hjo hne']
      rw [hio, hjo] at hops hfa
      rw [firstEmpty_recase _ _ 1 hfa]
      cases firstEmpty 1 (o' :: os') with
      | some k => exact ⟨rfl, hname, rfl⟩
      | none =>
        obtain ⟨hf, hfirst, hops'⟩ := hops
        obtain ⟨h1, h2⟩ := seen_step hs hf hfirst
        obtain ⟨h3, h4⟩ := stdOps_recase os os' _ _ hops' h2
        have h5 : SeenEq (seen ++ o :: os) (seen' ++ o' :: os') := by simpa using h4
        rw [hio] at hrest
        have ih := expectedFrom_recase is js ws.tail (seen ++ o :: os) (seen' ++ o' :: os')
          (n + (ws.headD {}).blanks.length + 1) hrest h5
        revert ih
        simp only
        cases expectedFrom (seen ++ o :: os) (n + (ws.headD {}).blanks.length + 1) is ws.tail with
        | error e =>
          cases expectedFrom (seen' ++ o' :: os') (n + (ws.headD {}).blanks.length + 1) js ws.tail with
          | error e' => exact id
          | ok r' => exact fun h => False.elim h
        | ok r =>
          cases expectedFrom (seen' ++ o' :: os') (n + (ws.headD {}).blanks.length + 1) js ws.tail with
          | error e' => exact fun h => False.elim h
          | ok r' => exact fun ih => ⟨⟨hname, h1, h3, rfl⟩, ih⟩

/-- parsed instructions that agree but for the letter case of the mnemonic -/
def ProgSame (p p' : ProgInstr) : Prop :=
  lower p.name = lower p'.name ∧ p.srcs = p'.srcs ∧ p.dst = p'.dst ∧ p.line = p'.line

theorem forall2_toProg : ∀ {l l' : List Written}, Forall2 WrittenSame l l' →
    Forall2 ProgSame (l.map toProg) (l'.map toProg)
  | [], [], _ => trivial
  | [], _ :: _, h => h.elim
  | _ :: _, [], h => h.elim
  | _ :: _, _ :: _, h => ⟨⟨h.1.1, by simp only [toProg, h.1.2.2.1], h.1.2.1, h.1.2.2.2⟩, forall2_toProg h.2⟩

/-- the same failure of `compile_program`: the same line, mnemonic equal up to case -/
def CompErrSame (e e' : CompileError) : Prop := lower e.name = lower e'.name ∧ e.line = e'.line

/-- `compile_program` does not see the letter case of mnemonics -/
theorem compileProgram_recase (isa : AMap Isa.Str Isa.Str) : ∀ (ps ps' : List ProgInstr), Forall2 ProgSame ps ps' →
    ExRel CompErrSame (compileProgram isa ps) (compileProgram isa ps')
  | [], [], _ => rfl
  | [], _ :: _, h => h.elim
  | _ :: _, [], h => h.elim
  | p :: ps, p' :: ps', h => by
    obtain ⟨⟨hn, hs, hd, hl⟩, hrest⟩ := h
    have hu : upper p.name = upper p'.name := IsaLemmas.upper_eq_iff_lower_eq.2 hn
    simp only [compileProgram, ← hu, ← hs, ← hd]
    cases AMap.get? isa (upper p.name) with
    | none => exact ⟨hn, hl⟩
    | some cap =>
      have ih := compileProgram_recase isa ps ps' hrest
      revert ih
      simp only
      cases compileProgram isa ps with
      | error e =>
        cases compileProgram isa ps' with
        | error e' => exact id
        | ok r' => exact fun h => False.elim h
      | ok r =>
        cases compileProgram isa ps' with
        | error e' => exact fun h => False.elim h
        | ok r' => intro ih; simp only [ExRel] at ih; simp only [ExRel, ih]

end Prog

/-! ## §8 the composed pipeline -/

section Pipe
open ICase (lower)
open Pipeline (Failure Stages front run cliTable)

/-- the pipeline stopped in the same stage with the same kind of error -/
def FailSame : Failure → Failure → Prop
  | .load e, .load e' => ErrSame lower e e'
  | .isa e, .isa e' => IsaErrSame e e'
  | .parse e, .parse e' => ParseErrSame e e'
  | .compile e, .compile e' => CompErrSame e e'
  | _, _ => False

/-- the same loaded processor, instruction set and compiled program; the parsed instructions agree but for the
letter case of their (raw) mnemonics -/
def StagesSame (s s' : Stages) : Prop :=
  s.proc = s'.proc ∧ s.isa = s'.isa ∧ Forall2 ProgSame s.parsed s'.parsed ∧ s.prog = s'.prog

theorem front_recase {d d' : Desc Pipeline.Str} {isa isa' : List (Pipeline.Str × Pipeline.Str)}
    {t t' : List Pipeline.Str}
    (h1 : ExRel (ErrSame lower) (load lower d) (load lower d'))
    (h2 : ∀ caps, ExRel IsaErrSame (Isa.loadIsa isa caps) (Isa.loadIsa isa' caps))
    (h3 : ExRel2 ParseErrSame (Forall2 ProgSame) (Program.readProgram t) (Program.readProgram t')) :
    ExRel2 FailSame StagesSame (front d isa t) (front d' isa' t') := by
  unfold front
  revert h1
  cases load lower d with
  | error e =>
    cases load lower d' with
    | error e' => exact id
    | ok p' => exact fun h => False.elim h
  | ok p =>
    cases load lower d' with
    | error e' => exact fun h => False.elim h
    | ok p' =>
      intro h1
      simp only [ExRel] at h1
      subst h1
      simp only
      have h2' := h2 (Isa.getAbilitiesProc p)
      revert h2'
      cases Isa.loadIsa isa (Isa.getAbilitiesProc p) with
      | error e =>
        cases Isa.loadIsa isa' (Isa.getAbilitiesProc p) with
        | error e' => exact id
        | ok m' => exact fun h => False.elim h
      | ok m =>
        cases Isa.loadIsa isa' (Isa.getAbilitiesProc p) with
        | error e' => exact fun h => False.elim h
        | ok m' =>
          intro h2'
          simp only [ExRel] at h2'
          subst h2'
          simp only
          revert h3
          cases Program.readProgram t with
          | error e =>
            cases Program.readProgram t' with
            | error e' => exact id
            | ok ps' => exact fun h => False.elim h
          | ok ps =>
            cases Program.readProgram t' with
            | error e' => exact fun h => False.elim h
            | ok ps' =>
              intro h3
              simp only [ExRel2] at h3
              simp only
              have h4 := compileProgram_recase m ps ps' h3
              revert h4
              cases Isa.compileProgram m ps with
              | error e =>
                cases Isa.compileProgram m ps' with
                | error e' => exact id
                | ok r' => exact fun h => False.elim h
              | ok r =>
                cases Isa.compileProgram m ps' with
                | error e' => exact fun h => False.elim h
                | ok r' =>
                  intro h4
                  simp only [ExRel] at h4
                  subst h4
                  exact ⟨rfl, rfl, h3, rfl⟩

/-- the same stages and the same simulation outcome -/
def RunSame (x y : Stages × Outcome Pipeline.Str) : Prop :=
  StagesSame x.1 y.1 ∧
    match x.2, y.2 with
    | .done a, .done b => a = b
    | .stall a, .stall b => a = b
    | .fault a, .fault b => a = b
    | _, _ => False

theorem run_recase {d d' : Desc Pipeline.Str} {isa isa' : List (Pipeline.Str × Pipeline.Str)}
    {t t' : List Pipeline.Str} (h : ExRel2 FailSame StagesSame (front d isa t) (front d' isa' t')) :
    ExRel2 FailSame RunSame (run d isa t) (run d' isa' t') := by
  unfold run
  revert h
  cases front d isa t with
  | error e =>
    cases front d' isa' t' with
    | error e' => exact id
    | ok s' => exact fun h => False.elim h
  | ok s =>
    cases front d' isa' t' with
    | error e' => exact fun h => False.elim h
    | ok s' =>
      intro h
      refine ⟨h, ?_⟩
      obtain ⟨hp, -, -, hg⟩ := h
      simp only [hp, hg]
      cases simulate s'.proc s'.prog <;> rfl

theorem cliTable_recase {d d' : Desc Pipeline.Str} {isa isa' : List (Pipeline.Str × Pipeline.Str)}
    {t t' : List Pipeline.Str} (h : ExRel2 FailSame RunSame (run d isa t) (run d' isa' t')) :
    cliTable d isa t = cliTable d' isa' t' := by
  unfold cliTable
  revert h
  cases run d isa t with
  | error e =>
    cases run d' isa' t' with
    | error e' => intro _; rfl
    | ok s' => exact fun h => False.elim h
  | ok s =>
    cases run d' isa' t' with
    | error e' => exact fun h => False.elim h
    | ok s' =>
      obtain ⟨st, o⟩ := s
      obtain ⟨st', o'⟩ := s'
      intro h
      obtain ⟨hs, ho⟩ := h
      have hlen : st.parsed.length = st'.parsed.length := Forall2.length_eq hs.2.2.1
      cases o <;> cases o' <;> simp only at ho <;> first | exact False.elim ho | (subst ho; simp only [hlen])

end Pipe

/-! ## §9 re-casing keeps a written program well-formed (blanks and commas are not letters) -/

section WellFormed
open ICase (lower)
open Program (isWs)
open Spec.Text (SrcInstr nameOK tokOK instrOK)

theorem toLower_toNat (c : Char) :
    c.toLower.toNat = if 65 ≤ c.toNat ∧ c.toNat ≤ 90 then c.toNat + 32 else c.toNat := by
  unfold Char.toLower
  have hA : 'A'.val.toNat = 65 := by decide
  have hZ : 'Z'.val.toNat = 90 := by decide
  have ha : ('a'.val - 'A'.val).toNat = 32 := by decide
  split
  · next h =>
    have h1 := UInt32.le_iff_toNat_le.1 h.1
    have h2 := UInt32.le_iff_toNat_le.1 h.2
    rw [hA] at h1; rw [hZ] at h2
    have : 65 ≤ c.toNat ∧ c.toNat ≤ 90 := ⟨h1, h2⟩
    rw [if_pos this]
    show (c.val + ('a'.val - 'A'.val)).toNat = c.val.toNat + 32
    rw [UInt32.toNat_add, ha]
    have : c.val.toNat ≤ 90 := h2
    omega
  · next h =>
    have : ¬ (65 ≤ c.toNat ∧ c.toNat ≤ 90) := by
      intro h'
      apply h
      exact ⟨UInt32.le_iff_toNat_le.2 (by rw [hA]; exact h'.1), UInt32.le_iff_toNat_le.2 (by rw [hZ]; exact h'.2)⟩
    rw [if_neg this]

theorem isWs_toLower (c : Char) : isWs c.toLower = isWs c := by
  simp only [isWs, toLower_toNat]
  split
  · next h =>
    have h1 : ¬ (c.toNat ≤ 13) := by omega
    have h2 : ¬ (c.toNat ≤ 32) := by omega
    have h3 : ¬ (c.toNat + 32 ≤ 13) := by omega
    have h4 : ¬ (c.toNat + 32 ≤ 32) := by omega
    simp [h1, h2, h3, h4]
  · rfl

theorem comma_toLower (c : Char) : (c.toLower = ',') ↔ (c = ',') := by
  have h := toLower_toNat c
  have hc : (',' : Char).toNat = 44 := by decide
  constructor
  · intro e
    rw [e, hc] at h
    apply Char.toNat_inj.1
    rw [hc]
    split at h <;> omega
  · intro e
    subst e
    decide

theorem all_of_lower_eq (p : Char → Bool) (hp : ∀ c : Char, p c.toLower = p c) : ∀ {t t' : List Char},
    lower t = lower t' → t.all p = t'.all p
  | [], [], _ => rfl
  | [], _ :: _, h => by simp [lower] at h
  | _ :: _, [], h => by simp [lower] at h
  | c :: t, c' :: t', h => by
    simp only [lower, List.map_cons, List.cons.injEq] at h
    simp only [List.all_cons, all_of_lower_eq p hp (t := t) (t' := t') h.2]
    rw [← hp c, ← hp c', h.1]

theorem nameOK_of_lower_eq {t t' : List Char} (h : lower t = lower t') : nameOK t = nameOK t' := by
  unfold nameOK
  rw [isEmpty_of_lower_eq h, all_of_lower_eq (fun c => !isWs c) (fun c => by simp only [isWs_toLower]) h]

theorem bne_comma_toLower (c : Char) : (c.toLower != ',') = (c != ',') := by
  by_cases hc : c = ','
  · subst hc; decide
  · have h2 : c.toLower ≠ ',' := fun e => hc ((comma_toLower c).1 e)
    rw [bne_iff_ne.2 h2, bne_iff_ne.2 hc]

theorem tokOK_of_lower_eq {t t' : List Char} (h : lower t = lower t') : tokOK t = tokOK t' := by
  unfold tokOK
  rw [isEmpty_of_lower_eq h, all_of_lower_eq (fun c => !isWs c && c != ',') (fun c => by
    simp only [isWs_toLower, bne_comma_toLower]) h]

theorem all_of_forall2 {α : Type} {R : α → α → Prop} {q : α → Bool} (hq : ∀ a b, R a b → q a = q b) :
    ∀ {l l' : List α}, Forall2 R l l' → l.all q = l'.all q
  | [], [], _ => rfl
  | [], _ :: _, h => h.elim
  | _ :: _, [], h => h.elim
  | _ :: _, _ :: _, h => by simp only [List.all_cons, hq _ _ h.1, all_of_forall2 hq h.2]

theorem instrOK_recase {i j : SrcInstr} (hn : lower i.name = lower j.name)
    (ho : Forall2 (SameFold lower) i.ops j.ops) : instrOK i = instrOK j := by
  unfold instrOK
  rw [nameOK_of_lower_eq hn, all_of_forall2 (q := fun o => o.isEmpty || tokOK o)
    (fun a b h => by simp only [isEmpty_of_lower_eq h, tokOK_of_lower_eq h]) ho]

theorem progRel_instrOK : ∀ {P : List (List Char)} {is js : List SrcInstr}, ProgRel P is js →
    (∀ i ∈ is, instrOK i = true) → ∀ j ∈ js, instrOK j = true
  | _, [], [], _, _ => fun _ h => by simp at h
  | _, [], _ :: _, h, _ => h.elim
  | _, _ :: _, [], h, _ => h.elim
  | _, i :: is, j :: js, h, hok => by
    intro x hx
    rcases List.mem_cons.1 hx with rfl | hx
    · rw [← instrOK_recase h.1 (RecasedFrom.forall2 lower h.2.1)]
      exact hok i List.mem_cons_self
    · exact progRel_instrOK h.2.2 (fun i hi => hok i (List.mem_cons_of_mem _ hi)) x hx

end WellFormed

end Recase
end ProcSim
