import ProcSim.Lemmas.StructWF
import ProcSim.Lemmas.LoaderBridge
/-!
# Bridge between the two route enumerations

* `Spec.routesFrom p c fuel s` (`Spec/Sim.lean`, used by `wfProc`): routes as lists of unit *models*, successors = the
  destinations listing the unit as a predecessor, in the order of `p.dests`;
* `(rgOfProc p).routesFrom c fuel s.name` (`Spec/Loader.lean`, used by C09): routes as lists of *names*, successors
  in the order of `procNames p`.

With unique unit names the name list of every route of the first enumeration is a route of the second
(`routesFrom_map_mem`), so C09's `LocksExact` gives `lockCountsOK` for every route `wfProc` looks at
(`lockCountsOK_of_locksExact`).

`routeLocksOK` (the route clause of `wfProc`) is split into `lockCountsOK` (exactly one read-locking and one
write-locking unit — what the loader checks) and `rdBeforeWr` (the read lock is not after the write lock — what the
loader does not check): `routeLocksOK_eq`, `wfProc_iff_struct_counts_order`.
-/
namespace ProcSim
open Spec

variable {N : Type} [DecidableEq N]

/-! ## splitting `routeLocksOK` -/

/-- positions on the route of the units with flag `f` (`·.rd` / `·.wr`) -/
def lockIdx (f : UnitM N → Bool) (r : List (UnitM N)) : List Nat :=
  (List.range r.length).filter (fun k => (r[k]?.map f).getD false)

/-- exactly one read-locking and exactly one write-locking unit on the route -/
def lockCountsOK (r : List (UnitM N)) : Bool :=
  (lockIdx (·.rd) r).length == 1 && (lockIdx (·.wr) r).length == 1

/-- the first read-locking unit of the route is not after the first write-locking unit (vacuous if either is
missing) -/
def rdBeforeWr (r : List (UnitM N)) : Bool :=
  match (lockIdx (·.rd) r).head?, (lockIdx (·.wr) r).head? with
  | some a, some b => decide (a ≤ b)
  | _, _ => true

omit [DecidableEq N] in
theorem routeLocksOK_eq (r : List (UnitM N)) : routeLocksOK r = (lockCountsOK r && rdBeforeWr r) := by
  show (match lockIdx (·.rd) r, lockIdx (·.wr) r with
      | [a], [b] => decide (a ≤ b)
      | _, _ => false) = _
  unfold lockCountsOK rdBeforeWr
  generalize lockIdx (·.rd) r = rd
  generalize lockIdx (·.wr) r = wr
  rcases rd with _ | ⟨a, _ | ⟨a', rd⟩⟩ <;> rcases wr with _ | ⟨b, _ | ⟨b', wr⟩⟩ <;> simp

omit [DecidableEq N] in
theorem lockIdx_cons (f : UnitM N → Bool) (a : UnitM N) (l : List (UnitM N)) :
    lockIdx f (a :: l) = (if f a = true then [0] else []) ++ (lockIdx f l).map (· + 1) := by
  unfold lockIdx
  rw [List.length_cons, List.range_succ_eq_map, List.filter_cons, List.filter_map]
  have : ((fun k => (Option.map f (a :: l)[k]?).getD false) ∘ Nat.succ) =
      (fun k => (Option.map f l[k]?).getD false) := by
    funext k; simp
  rw [this]
  by_cases h : f a = true <;> simp [h]

omit [DecidableEq N] in
/-- the number of positions = the number of units with the flag -/
theorem lockIdx_length (f : UnitM N → Bool) (l : List (UnitM N)) : (lockIdx f l).length = (l.filter f).length := by
  induction l with
  | nil => rfl
  | cons a l ih =>
    rw [lockIdx_cons, List.length_append, List.length_map, ih, List.filter_cons]
    by_cases h : f a = true <;> simp [h]; omega

/-- a check of every maximal capability route from an input-boundary port, enumerated exactly as `wfProc` does -/
def routesAll (p : Proc N) (q : List (UnitM N) → Bool) : Bool :=
  (allCaps p).all (fun c =>
    (p.inBoundary.filter (fun u => decide (c ∈ u.caps))).all (fun s =>
      (routesFrom p c p.allUnits.length s).all q))

theorem routesAll_iff (p : Proc N) (q : List (UnitM N) → Bool) :
    routesAll p q = true ↔ ∀ c ∈ allCaps p, ∀ s ∈ p.inBoundary, c ∈ s.caps →
      ∀ r ∈ routesFrom p c p.allUnits.length s, q r = true := by
  simp only [routesAll, List.all_eq_true, List.mem_filter, decide_eq_true_eq, and_imp]

/-- **the read lock is never after the write lock**, on every route `wfProc` looks at -/
def readNotAfterWrite (p : Proc N) : Bool := routesAll p rdBeforeWr

/-- every route `wfProc` looks at crosses exactly one read-locking and one write-locking unit -/
def lockCountsAll (p : Proc N) : Bool := routesAll p lockCountsOK

/-- **`wfProc`, reduced**: structural well-formedness, every unit has a capability, every route crosses exactly one
read-locking and one write-locking unit, and the read lock is not after the write lock. -/
theorem wfProc_iff_struct_counts_order (p : Proc N) :
    wfProc p = true ↔ structOK p = true ∧ p.allUnits.all (fun u => !u.caps.isEmpty) = true ∧
      lockCountsAll p = true ∧ readNotAfterWrite p = true := by
  rw [wfProc_iff_structOK_and]
  have : ((allCaps p).all (fun c =>
        (p.inBoundary.filter (fun u => decide (c ∈ u.caps))).all (fun s =>
          (routesFrom p c p.allUnits.length s).all routeLocksOK)) = true) ↔
      (lockCountsAll p = true ∧ readNotAfterWrite p = true) := by
    show routesAll p routeLocksOK = true ↔ _
    unfold lockCountsAll readNotAfterWrite
    simp only [routesAll_iff, routeLocksOK_eq, Bool.and_eq_true]
    exact ⟨fun h => ⟨fun c hc s hs hcs r hr => (h c hc s hs hcs r hr).1, fun c hc s hs hcs r hr => (h c hc s hs hcs r hr).2⟩,
      fun h c hc s hs hcs r hr => ⟨h.1 c hc s hs hcs r hr, h.2 c hc s hs hcs r hr⟩⟩
  rw [this]

/-! ## the graph of a processor object -/

open Loader.Spec in
theorem edgeB_iff_dests (p : Proc N) (a b : N) :
    edgeB p a b = true ↔ ∃ f ∈ p.dests, f.model.name = b ∧ a ∈ f.preds := by
  simp only [edgeB, Proc.dests, List.any_eq_true, Bool.and_eq_true, decide_eq_true_eq]

open Loader.Spec in
theorem supB_of_mem {p : Proc N} {u : UnitM N} (hu : u ∈ p.allUnits) {c : N} (hc : c ∈ u.caps) :
    supB p u.name c = true := by
  unfold supB
  rw [List.any_eq_true]
  exact ⟨u, hu, by simp [hc]⟩

open Loader.Spec in
theorem supB_iff {p : Proc N} (hn : (p.allUnits.map (·.name)).Nodup) {u : UnitM N} (hu : u ∈ p.allUnits) {c : N} :
    supB p u.name c = true ↔ c ∈ u.caps := by
  constructor
  · intro h
    unfold supB at h
    obtain ⟨m, hm, hmc⟩ := List.any_eq_true.1 h
    simp only [Bool.and_eq_true, decide_eq_true_eq] at hmc
    rw [← unit_eq_of_name_eq hn hm hu hmc.1]; exact hmc.2
  · exact supB_of_mem hu

open Loader.Spec in
theorem lockB_eq {p : Proc N} (hn : (p.allUnits.map (·.name)).Nodup) {u : UnitM N} (hu : u ∈ p.allUnits)
    (t : Loader.LockType) : lockB p t u.name = (match t with | .read => u.rd | .write => u.wr) := by
  unfold lockB
  apply Bool.eq_iff_iff.2
  rw [List.any_eq_true]
  constructor
  · rintro ⟨m, hm, hmc⟩
    simp only [Bool.and_eq_true, decide_eq_true_eq] at hmc
    rw [← unit_eq_of_name_eq hn hm hu hmc.1]; exact hmc.2
  · intro h
    exact ⟨u, hu, by simp only [decide_true, Bool.true_and]; exact h⟩

/-! ## the route enumerations agree -/

theorem mem_succsOf {p : Proc N} {n : N} {v : UnitM N} :
    v ∈ succsOf p n ↔ ∃ d ∈ p.dests, n ∈ d.preds ∧ d.model = v := by
  simp only [succsOf, List.mem_map, List.mem_filter, decide_eq_true_eq, and_assoc]

theorem succsOf_mem_allUnits {p : Proc N} {n : N} {v : UnitM N} (h : v ∈ succsOf p n) : v ∈ p.allUnits := by
  obtain ⟨d, hd, _, rfl⟩ := mem_succsOf.1 h
  exact model_mem_allUnits_of_mem_dests hd

/-- the units of a route are units of the processor -/
theorem routesFrom_mem_allUnits {p : Proc N} (c : N) : ∀ (k : Nat) (u : UnitM N), u ∈ p.allUnits →
    ∀ r ∈ routesFrom p c k u, ∀ x ∈ r, x ∈ p.allUnits
  | 0, u, hu, r, hr, x, hx => by
    simp only [routesFrom, List.mem_singleton] at hr
    subst hr
    simp only [List.mem_singleton] at hx
    subst hx; exact hu
  | k + 1, u, hu, r, hr, x, hx => by
    simp only [routesFrom] at hr
    split at hr
    · simp only [List.mem_singleton] at hr
      subst hr
      simp only [List.mem_singleton] at hx
      subst hx; exact hu
    · obtain ⟨r', hr', rfl⟩ := List.mem_map.1 hr
      obtain ⟨v, hv, hrv⟩ := List.mem_flatMap.1 hr'
      rcases List.mem_cons.1 hx with e | e
      · subst e; exact hu
      · exact routesFrom_mem_allUnits c k v (succsOf_mem_allUnits (List.mem_filter.1 hv).1) r' hrv x e

open Loader.Spec in
/-- **The name list of every route `wfProc` enumerates is a route of the loader specification's enumeration** on
the graph of the processor object (same fuel). -/
theorem routesFrom_map_mem {p : Proc N} (hn : (p.allUnits.map (·.name)).Nodup) (c : N) :
    ∀ (k : Nat) (u : UnitM N) (r : List (UnitM N)), r ∈ routesFrom p c k u →
      r.map (·.name) ∈ (rgOfProc p).routesFrom c k u.name
  | 0, u, r, hr => by
    simp only [routesFrom, List.mem_singleton] at hr
    subst hr
    simp [RG.routesFrom]
  | k + 1, u, r, hr => by
    -- a successor in the first enumeration is one in the second
    have hfwd : ∀ v, v ∈ (succsOf p u.name).filter (fun v => decide (c ∈ v.caps)) →
        v.name ∈ ((rgOfProc p).succs u.name).filter (fun w => (rgOfProc p).sup w c) := by
      intro v hv
      obtain ⟨hv1, hv2⟩ := List.mem_filter.1 hv
      have hvu := succsOf_mem_allUnits hv1
      obtain ⟨d, hd, hpre, rfl⟩ := mem_succsOf.1 hv1
      refine List.mem_filter.2 ⟨List.mem_filter.2 ⟨List.mem_map.2 ⟨_, hvu, rfl⟩, ?_⟩, ?_⟩
      · exact (edgeB_iff_dests p _ _).2 ⟨d, hd, rfl, hpre⟩
      · exact supB_of_mem hvu (by simpa using hv2)
    simp only [routesFrom] at hr
    simp only [RG.routesFrom]
    split at hr
    · next hemp =>
      simp only [List.mem_singleton] at hr
      subst hr
      -- no successor in the second enumeration either
      have hemp' : (((rgOfProc p).succs u.name).filter (fun w => (rgOfProc p).sup w c)).isEmpty = true := by
        rw [List.isEmpty_iff, List.eq_nil_iff_forall_not_mem]
        intro w hw
        obtain ⟨hw1, hw2⟩ := List.mem_filter.1 hw
        obtain ⟨hw3, hw4⟩ := List.mem_filter.1 hw1
        obtain ⟨f, hf, hfn, hpre⟩ := (edgeB_iff_dests p _ _).1 hw4
        have hfu := model_mem_allUnits_of_mem_dests hf
        have hcap : c ∈ f.model.caps := (supB_iff hn hfu).1 (by rw [hfn]; exact hw2)
        have : f.model ∈ (succsOf p u.name).filter (fun v => decide (c ∈ v.caps)) :=
          List.mem_filter.2 ⟨mem_succsOf.2 ⟨f, hf, hpre, rfl⟩, by simpa using hcap⟩
        rw [List.isEmpty_iff.1 hemp] at this
        cases this
      rw [if_pos hemp']
      simp
    · obtain ⟨r', hr', rfl⟩ := List.mem_map.1 hr
      obtain ⟨v, hv, hrv⟩ := List.mem_flatMap.1 hr'
      have hv' := hfwd v hv
      have hne : ¬ (((rgOfProc p).succs u.name).filter (fun w => (rgOfProc p).sup w c)).isEmpty = true := by
        intro he
        rw [List.isEmpty_iff.1 he] at hv'
        cases hv'
      rw [if_neg hne]
      exact List.mem_flatMap.2 ⟨v.name, hv', List.mem_map.2 ⟨_, routesFrom_map_mem hn c k v r' hrv, rfl⟩⟩

open Loader.Spec Loader.LoaderRoutes in
/-- **C09's lock clause gives `lockCountsOK`** on every route `wfProc` enumerates from `s` for `c` -/
theorem lockCountsOK_of_locksExact {p : Proc N} (hn : (p.allUnits.map (·.name)).Nodup)
    (hac : (rgOfProc p).Acyclic) {s : UnitM N} (hs : s ∈ p.allUnits) {c : N} (hc : c ∈ s.caps)
    (hL : (rgOfProc p).LocksExact c s.name) :
    ∀ r ∈ routesFrom p c p.allUnits.length s, lockCountsOK r = true := by
  intro r hr
  have hmem := routesFrom_map_mem hn c _ s r hr
  have hlen : p.allUnits.length = (rgOfProc p).names.length := by
    show _ = (p.allUnits.map (·.name)).length
    rw [List.length_map]
  rw [hlen] at hmem
  have hmax := (mem_maxRoutes_iff (rgOfProc p) (Loader.LoaderBridge.connIn_rgOfProc p) hac
    (List.mem_map.2 ⟨s, hs, rfl⟩) (supB_of_mem hs hc)).1 hmem
  obtain ⟨h1, h2⟩ := hL _ hmax.1 hmax.2
  have hall := routesFrom_mem_allUnits c _ s hs r hr
  have key : ∀ (t : Loader.LockType) (f : UnitM N → Bool),
      (∀ x ∈ p.allUnits, lockB p t x.name = f x) →
      (rgOfProc p).lockCount t (r.map (·.name)) = (lockIdx f r).length := by
    intro t f hf
    unfold RG.lockCount
    rw [lockIdx_length, List.filter_map, List.length_map]
    congr 1
    apply List.filter_congr
    intro x hx
    exact hf x (hall x hx)
  rw [key .read (·.rd) (fun x hx => lockB_eq hn hx .read)] at h1
  rw [key .write (·.wr) (fun x hx => lockB_eq hn hx .write)] at h2
  simp [lockCountsOK, h1, h2]

end ProcSim
