import ProcSim.Model.Basic
import ProcSim.Model.Types
import ProcSim.Model.Loader
import ProcSim.Spec.Loader
import ProcSim.Model.Queue
import ProcSim.Model.Sim
import ProcSim.Spec.Sim
