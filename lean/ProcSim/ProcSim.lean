import ProcSim.Model.Basic
import ProcSim.Model.Types
